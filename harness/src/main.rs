//! Scenario driver for the model-based verification of hbs-lms.
//!
//! Reads a scenario file (one JSON command per line, produced from TLC output by tools/check.py),
//! executes every command against the real library built from /repo's working tree with
//! `--cfg hbs_lms_verif`, and writes one ndjson event per observable step with ALL inputs and
//! outputs as raw hex.  The driver contains no expected values: it only concretises scenarios and
//! records.  Judging is done by TLC against the TLA+ specification (spec/Trace*.tla).
//!
//! A panic inside the library is data (`"res":"panic"`), never a failure of the driver.

use std::any::Any;
use std::collections::HashMap;
use std::io::{BufRead, BufWriter, Write};
use std::panic::{catch_unwind, AssertUnwindSafe};
use std::sync::atomic::{AtomicU64, Ordering};
use std::sync::Arc;
use std::time::{SystemTime, UNIX_EPOCH};

use hbs_lms::signature::{Signature as SigTrait, SignerMut, Verifier};
use hbs_lms::{
    HashChain, HssParameter, LmotsAlgorithm, LmsAlgorithm, Seed, Sha256_128, Sha256_192,
    Sha256_256, Shake256_128, Shake256_192, Shake256_256, Signature, SigningKey,
    VerifierSignature, VerifyingKey,
};
use serde_json::{json, Map, Value};

mod probe;

// ------------------------------------------------------------------------------------------------
// helpers
// ------------------------------------------------------------------------------------------------

fn hex(b: &[u8]) -> String {
    let mut s = String::with_capacity(b.len() * 2);
    for x in b {
        s.push(char::from_digit((x >> 4) as u32, 16).unwrap());
        s.push(char::from_digit((x & 15) as u32, 16).unwrap());
    }
    s
}

fn unhex(s: &str) -> Vec<u8> {
    let c: Vec<u8> = s.bytes().collect();
    assert!(c.len() % 2 == 0, "odd hex length");
    (0..c.len() / 2)
        .map(|i| {
            let hi = (c[2 * i] as char).to_digit(16).expect("hex digit");
            let lo = (c[2 * i + 1] as char).to_digit(16).expect("hex digit");
            (hi * 16 + lo) as u8
        })
        .collect()
}

/// splitmix64: every random choice of the driver derives from VERIF_SEED and a tag.
struct Rng(u64);
impl Rng {
    fn from_tag(seed: u64, tag: &str) -> Rng {
        let mut h = seed ^ 0x9e3779b97f4a7c15;
        for b in tag.bytes() {
            h = (h ^ b as u64).wrapping_mul(0x100000001b3);
            h ^= h >> 29;
        }
        Rng(h)
    }
    fn next(&mut self) -> u64 {
        self.0 = self.0.wrapping_add(0x9e3779b97f4a7c15);
        let mut z = self.0;
        z = (z ^ (z >> 30)).wrapping_mul(0xbf58476d1ce4e5b9);
        z = (z ^ (z >> 27)).wrapping_mul(0x94d049bb133111eb);
        z ^ (z >> 31)
    }
    fn bytes(&mut self, n: usize) -> Vec<u8> {
        let mut out = Vec::with_capacity(n);
        while out.len() < n {
            let v = self.next().to_le_bytes();
            let take = (n - out.len()).min(8);
            out.extend_from_slice(&v[..take]);
        }
        out
    }
}

fn panic_message(e: Box<dyn Any + Send>) -> String {
    if let Some(s) = e.downcast_ref::<&str>() {
        s.to_string()
    } else if let Some(s) = e.downcast_ref::<String>() {
        s.clone()
    } else {
        "panic".to_string()
    }
}

// ------------------------------------------------------------------------------------------------
// driver state
// ------------------------------------------------------------------------------------------------

struct Driver {
    seed: u64,
    slots: HashMap<String, Vec<u8>>,
    mem: HashMap<String, Box<dyn Any>>, // SigningKey<H> objects
    /// VerifyingKey<H> objects that live across verify calls, one per (hash, public key bytes)
    vks: HashMap<String, Box<dyn Any>>,
    out: Box<dyn Write>,
    next_id: u64,
    heartbeat: Arc<AtomicU64>,
    /// extra fields added to every event (thread / process tag of C09's parallel scenarios)
    tag: Option<(String, Value)>,
}

/// an in-memory event sink that can be read back after a worker thread finished
#[derive(Clone)]
struct SharedBuf(Arc<std::sync::Mutex<Vec<u8>>>);
impl Write for SharedBuf {
    fn write(&mut self, b: &[u8]) -> std::io::Result<usize> {
        self.0.lock().unwrap().extend_from_slice(b);
        Ok(b.len())
    }
    fn flush(&mut self) -> std::io::Result<()> {
        Ok(())
    }
}

fn now_ms() -> u64 {
    SystemTime::now()
        .duration_since(UNIX_EPOCH)
        .unwrap()
        .as_millis() as u64
}

impl Driver {
    fn emit(&mut self, mut v: Value) {
        if let (Some((k, t)), Some(o)) = (&self.tag, v.as_object_mut()) {
            o.insert(k.clone(), t.clone());
        }
        serde_json::to_writer(&mut self.out, &v).unwrap();
        self.out.write_all(b"\n").unwrap();
    }

    /// evaluate a byte-string expression
    fn bytes(&mut self, e: &Value) -> Vec<u8> {
        match e {
            Value::String(s) => unhex(s),
            Value::Object(o) => {
                if let Some(name) = o.get("slot") {
                    let name = name.as_str().unwrap();
                    // a slot that was never filled (the producing call failed) reads as empty
                    self.slots.get(name).cloned().unwrap_or_default()
                } else if let Some(n) = o.get("rand") {
                    let tag = o.get("tag").and_then(|t| t.as_str()).unwrap_or("");
                    Rng::from_tag(self.seed, tag).bytes(n.as_u64().unwrap() as usize)
                } else if let Some(n) = o.get("rep") {
                    vec![o["byte"].as_u64().unwrap() as u8; n.as_u64().unwrap() as usize]
                } else if let Some(parts) = o.get("cat") {
                    let mut out = Vec::new();
                    for p in parts.as_array().unwrap() {
                        out.extend(self.bytes(p));
                    }
                    out
                } else if let Some(of) = o.get("slice") {
                    let b = self.bytes(of);
                    let off = o["off"].as_u64().unwrap() as usize;
                    let len = o["len"].as_u64().unwrap() as usize;
                    b[off.min(b.len())..(off + len).min(b.len())].to_vec()
                } else if let Some(of) = o.get("xor") {
                    // XOR every byte of [off, off+len) with `byte`
                    let mut b = self.bytes(of);
                    let off = o["off"].as_u64().unwrap() as usize;
                    let len = o["len"].as_u64().unwrap() as usize;
                    let x = o["byte"].as_u64().unwrap() as u8;
                    for i in off..(off + len).min(b.len()) {
                        b[i] ^= x;
                    }
                    b
                } else if let Some(of) = o.get("rotl") {
                    // rotate the region [off, off+len) left by `by` bytes
                    let mut b = self.bytes(of);
                    let off = o["off"].as_u64().unwrap() as usize;
                    let len = o["len"].as_u64().unwrap() as usize;
                    let by = o["by"].as_u64().unwrap() as usize;
                    if off + len <= b.len() && len > 0 {
                        b[off..off + len].rotate_left(by % len);
                    }
                    b
                } else if let Some(of) = o.get("addsub") {
                    // byte `off` plus one, byte `off + dist` minus one (both wrapping)
                    let mut b = self.bytes(of);
                    let off = o["off"].as_u64().unwrap() as usize;
                    let dist = o["dist"].as_u64().unwrap() as usize;
                    if off + dist < b.len() {
                        b[off] = b[off].wrapping_add(1);
                        b[off + dist] = b[off + dist].wrapping_sub(1);
                    }
                    b
                } else if let Some(of) = o.get("mut") {
                    let mut b = self.bytes(of);
                    let kind = o["kind"].as_str().unwrap();
                    let off = o.get("off").and_then(|x| x.as_u64()).unwrap_or(0) as usize;
                    match kind {
                        // flip one bit: byte `off`, bit `bit` (0 = least significant)
                        "flip" => {
                            let bit = o.get("bit").and_then(|x| x.as_u64()).unwrap_or(0);
                            if off < b.len() {
                                b[off] ^= 1u8 << bit;
                            }
                        }
                        // flip a VERIF_SEED-chosen bit inside [off, off+len)
                        "flip_in" => {
                            let len = o["len"].as_u64().unwrap() as usize;
                            let tag = o.get("tag").and_then(|t| t.as_str()).unwrap_or("");
                            let mut r = Rng::from_tag(self.seed, tag);
                            if len > 0 {
                                let pos = off + (r.next() as usize % len);
                                let bit = r.next() % 8;
                                if pos < b.len() {
                                    b[pos] ^= 1u8 << bit;
                                }
                            }
                        }
                        // overwrite bytes at off with `with`
                        "set" => {
                            let w = self.bytes(&o["with"]);
                            for (i, x) in w.iter().enumerate() {
                                if off + i < b.len() {
                                    b[off + i] = *x;
                                }
                            }
                        }
                        "trunc" => {
                            let len = o["len"].as_u64().unwrap() as usize;
                            b.truncate(len);
                        }
                        "extend" => {
                            let w = self.bytes(&o["with"]);
                            b.extend(w);
                        }
                        // remove [off, off+len)
                        "cut" => {
                            let len = o["len"].as_u64().unwrap() as usize;
                            let end = (off + len).min(b.len());
                            if off < b.len() {
                                b.drain(off..end);
                            }
                        }
                        // insert `with` at off
                        "insert" => {
                            let w = self.bytes(&o["with"]);
                            let at = off.min(b.len());
                            let tail = b.split_off(at);
                            b.extend(w);
                            b.extend(tail);
                        }
                        other => panic!("driver: unknown mutation {}", other),
                    }
                    b
                } else {
                    panic!("driver: bad byte expression {}", e)
                }
            }
            Value::Null => Vec::new(),
            _ => panic!("driver: bad byte expression {}", e),
        }
    }

    fn store(&mut self, cmd: &Value, field: &str, val: &[u8]) {
        if let Some(name) = cmd.get("out").and_then(|o| o.get(field)).and_then(|n| n.as_str()) {
            self.slots.insert(name.to_string(), val.to_vec());
        }
    }
}

fn w_of(w: u64) -> LmotsAlgorithm {
    match w {
        1 => LmotsAlgorithm::LmotsW1,
        2 => LmotsAlgorithm::LmotsW2,
        4 => LmotsAlgorithm::LmotsW4,
        8 => LmotsAlgorithm::LmotsW8,
        _ => panic!("driver: bad w"),
    }
}
fn h_of(h: u64) -> LmsAlgorithm {
    match h {
        2 => LmsAlgorithm::LmsH2,
        5 => LmsAlgorithm::LmsH5,
        10 => LmsAlgorithm::LmsH10,
        15 => LmsAlgorithm::LmsH15,
        20 => LmsAlgorithm::LmsH20,
        25 => LmsAlgorithm::LmsH25,
        _ => panic!("driver: bad h"),
    }
}

fn res_str<T>(r: &Result<Result<T, String>, String>) -> &'static str {
    match r {
        Ok(Ok(_)) => "ok",
        Ok(Err(_)) => "err",
        Err(_) => "panic",
    }
}

/// run a closure under catch_unwind; Err(message) on panic
fn guarded<T>(f: impl FnOnce() -> T) -> Result<T, String> {
    catch_unwind(AssertUnwindSafe(f)).map_err(panic_message)
}

// ------------------------------------------------------------------------------------------------
// operations, generic over the hash
// ------------------------------------------------------------------------------------------------

fn op_keygen<H: HashChain + 'static>(d: &mut Driver, cmd: &Value) {
    let alg = cmd["alg"].as_str().unwrap().to_string();
    let params_json = cmd["params"].as_array().unwrap().clone();
    let seed_bytes = d.bytes(&cmd["seed"]);
    let seed_tail: Option<Vec<u8>> = cmd.get("seed_tail").map(|t| {
        let mut v = d.bytes(t);
        v.resize(32, 0x5a);
        v
    });
    let aux_in: Option<Vec<u8>> = if cmd.get("aux").map_or(true, |a| a.is_null()) {
        None
    } else {
        Some(d.bytes(&cmd["aux"]))
    };
    let mut aux_buf = aux_in.clone().unwrap_or_default();
    let mut aux_len = aux_buf.len();

    let r = guarded(|| {
        // HssParameter::new panics for parameter kinds the build does not support; that is part
        // of the observed behaviour of keygen's input handling.
        let params: Vec<HssParameter<H>> = params_json
            .iter()
            .map(|p| HssParameter::new(w_of(p[0].as_u64().unwrap()), h_of(p[1].as_u64().unwrap())))
            .collect();
        // Seed<H> always owns 32 bytes; only the first n are the seed. With "seed_tail" the value is
        // built through `From<[u8; 32]>` with the given bytes behind the seed.
        let seed = match &seed_tail {
            Some(tail) => {
                let mut full = [0u8; 32];
                full[..seed_bytes.len()].copy_from_slice(&seed_bytes);
                let room = 32 - seed_bytes.len();
                full[seed_bytes.len()..].copy_from_slice(&tail[..room]);
                Seed::<H>::from(full)
            }
            None => {
                let mut seed = Seed::<H>::default();
                seed.as_mut_slice().copy_from_slice(&seed_bytes);
                seed
            }
        };
        let res = if aux_in.is_some() {
            let aux_slice: &mut &mut [u8] = &mut &mut aux_buf[..];
            let r = hbs_lms::keygen::<H>(&params, &seed, Some(aux_slice));
            aux_len = aux_slice.len();
            r
        } else {
            hbs_lms::keygen::<H>(&params, &seed, None)
        };
        res.map(|(sk, vk)| (sk.as_slice().to_vec(), vk.as_slice().to_vec()))
            .map_err(|_| "err".to_string())
    });
    let mut ev = Map::new();
    ev.insert("ev".into(), json!("keygen"));
    ev.insert("alg".into(), json!(alg));
    ev.insert("params".into(), Value::Array(params_json));
    ev.insert("seed".into(), json!(hex(&seed_bytes)));
    if let Some(t) = &seed_tail {
        ev.insert("seed_tail".into(), json!(hex(&t[..32 - seed_bytes.len().min(32)])));
    }
    ev.insert("has_aux".into(), json!(aux_in.is_some()));
    ev.insert("aux_in".into(), json!(aux_in.as_deref().map(hex).unwrap_or_default()));
    ev.insert("res".into(), json!(res_str(&r)));
    match &r {
        Ok(Ok((sk, pk))) => {
            ev.insert("sk".into(), json!(hex(sk)));
            ev.insert("pk".into(), json!(hex(pk)));
            d.store(cmd, "sk", sk);
            d.store(cmd, "pk", pk);
        }
        Err(m) => {
            ev.insert("panic".into(), json!(m));
            ev.insert("sk".into(), json!(""));
            ev.insert("pk".into(), json!(""));
        }
        _ => {
            ev.insert("sk".into(), json!(""));
            ev.insert("pk".into(), json!(""));
        }
    }
    ev.insert("aux_out".into(), json!(hex(&aux_buf)));
    ev.insert("aux_len".into(), json!(aux_len));
    d.store(cmd, "aux", &aux_buf[..aux_len.min(aux_buf.len())]);
    d.store(cmd, "aux_full", &aux_buf);
    copy_meta(cmd, &mut ev);
    d.emit(Value::Object(ev));
}

fn copy_meta(cmd: &Value, ev: &mut Map<String, Value>) {
    if let Some(m) = cmd.get("meta") {
        ev.insert("meta".into(), m.clone());
    }
    if let Some(m) = cmd.get("walk") {
        ev.insert("walk".into(), m.clone());
    }
    if let Some(m) = cmd.get("k") {
        ev.insert("k".into(), m.clone());
    }
    if let Some(m) = cmd.get("light") {
        ev.insert("light".into(), m.clone());
    }
    if let Some(m) = cmd.get("bad") {
        ev.insert("bad".into(), m.clone());
    }
    if let Some(m) = cmd.get("start_ctr") {
        ev.insert("start_ctr".into(), m.clone());
    }
}

/// an operation on an in-memory key object that does not exist (its `load` was refused by the library):
/// nothing is called; the event says so (the `load` event itself is judged)
fn emit_skip(d: &mut Driver, cmd: &Value, why: &str) {
    let mut ev = Map::new();
    ev.insert("ev".into(), json!("skip"));
    ev.insert("op".into(), cmd["op"].clone());
    ev.insert("why".into(), json!(why));
    copy_meta(cmd, &mut ev);
    d.emit(Value::Object(ev));
}

/// callback record: (argument, planned return)
struct CbLog {
    calls: Vec<(Vec<u8>, &'static str)>,
}

fn op_sign<H: HashChain + 'static>(d: &mut Driver, cmd: &Value) {
    let alg = cmd["alg"].as_str().unwrap().to_string();
    let api = cmd.get("api").and_then(|a| a.as_str()).unwrap_or("bytes").to_string();
    let plan = cmd.get("plan").and_then(|a| a.as_str()).unwrap_or("accept").to_string();
    let mut msg = d.bytes(&cmd["msg"]);
    let msg_in = msg.clone();
    let is_mut = cmd["op"].as_str().unwrap() == "sign_mut";
    let aux_in: Option<Vec<u8>> = if cmd.get("aux").map_or(true, |a| a.is_null()) {
        None
    } else {
        Some(d.bytes(&cmd["aux"]))
    };
    let mut aux_buf = aux_in.clone().unwrap_or_default();
    let mut aux_len = aux_buf.len();
    let id = d.next_id;
    d.next_id += 1;

    let mut cb = CbLog { calls: Vec::new() };
    let key_in: Vec<u8>;
    let mut mem_after: Option<Vec<u8>> = None;
    let mut stored_after: Option<Vec<u8>> = None; // what the caller's storage holds after the call
    let r: Result<Result<(Vec<u8>, u32), String>, String>;

    if api == "bytes" {
        key_in = d.bytes(&cmd["key"]);
        let mut storage: Option<Vec<u8>> = None;
        let plan2 = plan.clone();
        let key_for_call = key_in.clone();
        r = guarded(|| {
            let mut update = |new_key: &[u8]| -> Result<(), ()> {
                match plan2.as_str() {
                    "accept" => {
                        cb.calls.push((new_key.to_vec(), "ok"));
                        storage = Some(new_key.to_vec());
                        Ok(())
                    }
                    "reject" => {
                        cb.calls.push((new_key.to_vec(), "err"));
                        Err(())
                    }
                    "crash_before" => {
                        cb.calls.push((new_key.to_vec(), "crash"));
                        panic!("verif: injected crash before persisting");
                    }
                    "crash_after" => {
                        cb.calls.push((new_key.to_vec(), "crash"));
                        storage = Some(new_key.to_vec());
                        panic!("verif: injected crash after persisting");
                    }
                    _ => panic!("driver: bad plan"),
                }
            };
            let res = if is_mut {
                sign_mut_call::<H>(&mut msg, &key_for_call, &mut update, aux_in.is_some(), &mut aux_buf, &mut aux_len)
            } else if aux_in.is_some() {
                let aux_slice: &mut &mut [u8] = &mut &mut aux_buf[..];
                let r = hbs_lms::sign::<H>(&msg, &key_for_call, &mut update, Some(aux_slice));
                aux_len = aux_slice.len();
                r
            } else {
                hbs_lms::sign::<H>(&msg, &key_for_call, &mut update, None)
            };
            res.map(|s| (s.as_ref().to_vec(), hash_iterations(&s)))
                .map_err(|_| "err".to_string())
        });
        stored_after = storage;
    } else {
        // in-memory SigningKey object
        let name = cmd["mem"].as_str().unwrap().to_string();
        if !d.mem.contains_key(&name) {
            emit_skip(d, cmd, "no in-memory key of that name (its load was refused)");
            return;
        }
        let obj = d.mem.get_mut(&name).unwrap();
        let sk = obj
            .downcast_mut::<SigningKey<H>>()
            .expect("driver: mem key of another hash");
        key_in = sk.as_slice().to_vec();
        r = guarded(|| {
            let res = if api == "mem_aux" {
                if aux_in.is_some() {
                    let aux_slice: &mut &mut [u8] = &mut &mut aux_buf[..];
                    let r = sk.try_sign_with_aux(&msg, Some(aux_slice));
                    aux_len = aux_slice.len();
                    r
                } else {
                    sk.try_sign_with_aux(&msg, None)
                }
            } else {
                sk.try_sign(&msg)
            };
            res.map(|s| (s.as_ref().to_vec(), hash_iterations(&s)))
                .map_err(|_| "err".to_string())
        });
        mem_after = Some(sk.as_slice().to_vec());
    }

    let mut ev = Map::new();
    ev.insert("ev".into(), json!(if is_mut { "sign_mut" } else { "sign" }));
    ev.insert("id".into(), json!(id));
    ev.insert("alg".into(), json!(alg));
    ev.insert("api".into(), json!(api));
    ev.insert("plan".into(), json!(plan));
    ev.insert("key".into(), json!(hex(&key_in)));
    ev.insert("msg".into(), json!(hex(&msg_in)));
    ev.insert("msg_out".into(), json!(hex(&msg)));
    ev.insert("has_aux".into(), json!(aux_in.is_some()));
    ev.insert("aux_in".into(), json!(aux_in.as_deref().map(hex).unwrap_or_default()));
    ev.insert("aux_out".into(), json!(hex(&aux_buf)));
    ev.insert("aux_len".into(), json!(aux_len));
    ev.insert(
        "cb".into(),
        Value::Array(
            cb.calls
                .iter()
                .map(|(a, r)| json!({"arg": hex(a), "ret": r}))
                .collect(),
        ),
    );
    ev.insert("cb_n".into(), json!(cb.calls.len()));
    ev.insert("res".into(), json!(res_str(&r)));
    match &r {
        Ok(Ok((sig, iters))) => {
            ev.insert("sig".into(), json!(hex(sig)));
            ev.insert("hash_iterations".into(), json!(iters));
            d.store(cmd, "sig", sig);
        }
        Err(m) => {
            ev.insert("sig".into(), json!(""));
            ev.insert("panic".into(), json!(m));
        }
        _ => {
            ev.insert("sig".into(), json!(""));
        }
    }
    ev.insert("has_mem".into(), json!(mem_after.is_some()));
    ev.insert("mem_after".into(), json!(mem_after.as_deref().map(hex).unwrap_or_default()));
    ev.insert("stored".into(), json!(stored_after.is_some()));
    ev.insert(
        "stored_key".into(),
        json!(stored_after.as_deref().map(hex).unwrap_or_default()),
    );
    if let Some(s) = &stored_after {
        d.store(cmd, "next", s);
    }
    if let Some(s) = &mem_after {
        d.store(cmd, "next", s);
    }
    if cb.calls.iter().any(|(_, r)| *r == "crash") {
        // the injected crash unwound the "process": in-memory key objects do not survive it
        d.mem.clear();
    }
    d.store(cmd, "msg_out", &msg);
    d.store(cmd, "aux", &aux_buf[..aux_len.min(aux_buf.len())]);
    copy_meta(cmd, &mut ev);
    d.emit(Value::Object(ev));
}

#[cfg(feature = "verbose")]
fn hash_iterations(s: &Signature) -> u32 {
    s.hash_iterations
}
#[cfg(not(feature = "verbose"))]
fn hash_iterations(_s: &Signature) -> u32 {
    0
}

#[cfg(feature = "fast_verify")]
fn sign_mut_call<H: HashChain>(
    msg: &mut [u8],
    key: &[u8],
    update: &mut dyn FnMut(&[u8]) -> Result<(), ()>,
    has_aux: bool,
    aux_buf: &mut Vec<u8>,
    aux_len: &mut usize,
) -> Result<Signature, hbs_lms::signature::Error> {
    if has_aux {
        let aux_slice: &mut &mut [u8] = &mut &mut aux_buf[..];
        let r = hbs_lms::sign_mut::<H>(msg, key, update, Some(aux_slice));
        *aux_len = aux_slice.len();
        r
    } else {
        hbs_lms::sign_mut::<H>(msg, key, update, None)
    }
}
#[cfg(not(feature = "fast_verify"))]
fn sign_mut_call<H: HashChain>(
    _msg: &mut [u8],
    _key: &[u8],
    _update: &mut dyn FnMut(&[u8]) -> Result<(), ()>,
    _has_aux: bool,
    _aux_buf: &mut Vec<u8>,
    _aux_len: &mut usize,
) -> Result<Signature, hbs_lms::signature::Error> {
    panic!("driver: built without the fast_verify feature")
}

fn op_verify<H: HashChain + 'static>(d: &mut Driver, cmd: &Value) {
    let alg = cmd["alg"].as_str().unwrap().to_string();
    let msg = d.bytes(&cmd["msg"]);
    let sig = d.bytes(&cmd["sig"]);
    let pk = d.bytes(&cmd["pk"]);

    let r_fn = guarded(|| hbs_lms::verify::<H>(&msg, &sig, &pk).map_err(|_| "err".to_string()));
    let r_vk = guarded(|| {
        VerifyingKey::<H>::from_bytes(&pk)
            .map(|_| ())
            .map_err(|_| "err".to_string())
    });
    let r_sig = guarded(|| {
        <Signature as SigTrait>::from_bytes(&sig)
            .map(|_| ())
            .map_err(|_| "err".to_string())
    });
    // entry point 2: VerifyingKey + Signature; "na" when a constructor refused
    let r_vk_sig: Result<Result<(), String>, String> = guarded(|| {
        let vk = VerifyingKey::<H>::from_bytes(&pk).map_err(|_| "na".to_string())?;
        let s = <Signature as SigTrait>::from_bytes(&sig).map_err(|_| "na".to_string())?;
        vk.verify(&msg, &s).map_err(|_| "err".to_string())
    });
    let r_vk_ref: Result<Result<(), String>, String> = guarded(|| {
        let vk = VerifyingKey::<H>::from_bytes(&pk).map_err(|_| "na".to_string())?;
        let s = VerifierSignature::from_ref(&sig).map_err(|_| "na".to_string())?;
        vk.verify(&msg, &s).map_err(|_| "err".to_string())
    });
    // entry points 4 and 5: ONE VerifyingKey object per public key that lives across verify calls (verification is
    // a function of (message, signature, public key) whatever the object verified before); "na" when no object exists
    let vk_id = format!("{}:{}", alg, hex(&pk));
    if !d.vks.contains_key(&vk_id) {
        if let Ok(Ok(vk)) = guarded(|| VerifyingKey::<H>::from_bytes(&pk).map_err(|_| ())) {
            d.vks.insert(vk_id.clone(), Box::new(vk));
        }
    }
    let (r_re_sig, r_re_ref): (Result<Result<(), String>, String>, Result<Result<(), String>, String>) =
        match d.vks.get(&vk_id).and_then(|o| o.downcast_ref::<VerifyingKey<H>>()) {
            Some(vk) => (
                guarded(|| {
                    let s = <Signature as SigTrait>::from_bytes(&sig).map_err(|_| "na".to_string())?;
                    vk.verify(&msg, &s).map_err(|_| "err".to_string())
                }),
                guarded(|| {
                    let s = VerifierSignature::from_ref(&sig).map_err(|_| "na".to_string())?;
                    vk.verify(&msg, &s).map_err(|_| "err".to_string())
                }),
            ),
            None => (Ok(Err("na".to_string())), Ok(Err("na".to_string()))),
        };
    // entry point 6: a VerifyingKey made from a VALID key ("pk_base") whose public `bytes` field the caller then overwrote
    // with this event's key bytes: verification parses what the object holds NOW
    let r_poked: Result<Result<(), String>, String> = match cmd.get("pk_base") {
        None => Ok(Err("na".to_string())),
        Some(b) => {
            let base = d.bytes(b);
            guarded(|| {
                let mut vk = VerifyingKey::<H>::from_bytes(&base).map_err(|_| "na".to_string())?;
                let nb = tinyvec::ArrayVec::try_from(&pk[..]).map_err(|_| "na".to_string())?;
                vk.bytes = nb;
                let s = VerifierSignature::from_ref(&sig).map_err(|_| "na".to_string())?;
                vk.verify(&msg, &s).map_err(|_| "err".to_string())
            })
        }
    };
    let show = |r: &Result<Result<(), String>, String>| -> String {
        match r {
            Ok(Ok(())) => "ok".into(),
            Ok(Err(e)) => e.clone(),
            Err(_) => "panic".into(),
        }
    };
    let mut ev = Map::new();
    ev.insert("ev".into(), json!("verify"));
    ev.insert("alg".into(), json!(alg));
    ev.insert("msg".into(), json!(hex(&msg)));
    ev.insert("sig".into(), json!(hex(&sig)));
    ev.insert("pk".into(), json!(hex(&pk)));
    ev.insert("res".into(), json!(show(&r_fn)));
    ev.insert("vk_from".into(), json!(show(&r_vk)));
    ev.insert("sig_from".into(), json!(show(&r_sig)));
    ev.insert("vk_sig".into(), json!(show(&r_vk_sig)));
    ev.insert("vk_ref".into(), json!(show(&r_vk_ref)));
    ev.insert("vk_reused_sig".into(), json!(show(&r_re_sig)));
    ev.insert("vk_reused_ref".into(), json!(show(&r_re_ref)));
    ev.insert("vk_poked".into(), json!(show(&r_poked)));
    let mut panics = Vec::new();
    for r in [&r_fn, &r_vk, &r_sig, &r_vk_sig, &r_vk_ref, &r_re_sig, &r_re_ref, &r_poked] {
        if let Err(m) = r {
            panics.push(m.clone());
        }
    }
    if !panics.is_empty() {
        ev.insert("panic".into(), json!(panics[0]));
    }
    copy_meta(cmd, &mut ev);
    d.emit(Value::Object(ev));
}

fn op_lifetime<H: HashChain + 'static>(d: &mut Driver, cmd: &Value) {
    let alg = cmd["alg"].as_str().unwrap().to_string();
    if let Some(name) = cmd.get("mem").and_then(|m| m.as_str()) {
        if !d.mem.contains_key(name) {
            emit_skip(d, cmd, "no in-memory key of that name (its load was refused)");
            return;
        }
    }
    let (key, api) = if let Some(name) = cmd.get("mem").and_then(|m| m.as_str()) {
        let obj = d.mem.get(name).unwrap();
        (
            obj.downcast_ref::<SigningKey<H>>()
                .expect("driver: mem key of another hash")
                .as_slice()
                .to_vec(),
            "mem",
        )
    } else {
        (d.bytes(&cmd["key"]), "bytes")
    };
    // bytes: from_bytes + get_lifetime, each observed.  mem: the query goes to the in-memory object ITSELF (whatever it
    // remembers from earlier calls), not to a copy of its bytes
    let r = if api == "mem" {
        let name = cmd["mem"].as_str().unwrap();
        let sk = d.mem.get(name).unwrap().downcast_ref::<SigningKey<H>>().expect("driver: mem key of another hash");
        guarded(|| sk.get_lifetime().map_err(|_| "err".to_string()))
    } else {
        guarded(|| {
            let sk = SigningKey::<H>::from_bytes(&key).map_err(|_| "from_bytes".to_string())?;
            sk.get_lifetime().map_err(|_| "err".to_string())
        })
    };
    let mut ev = Map::new();
    ev.insert("ev".into(), json!("lifetime"));
    ev.insert("alg".into(), json!(alg));
    ev.insert("api".into(), json!(api));
    ev.insert("key".into(), json!(hex(&key)));
    match &r {
        Ok(Ok(v)) => {
            ev.insert("res".into(), json!("ok"));
            ev.insert("val".into(), json!(format!("{:016x}", v)));
        }
        Ok(Err(e)) => {
            ev.insert("res".into(), json!(if e == "from_bytes" { "err_from_bytes" } else { "err" }));
            ev.insert("val".into(), json!(""));
        }
        Err(m) => {
            ev.insert("res".into(), json!("panic"));
            ev.insert("val".into(), json!(""));
            ev.insert("panic".into(), json!(m));
        }
    }
    copy_meta(cmd, &mut ev);
    d.emit(Value::Object(ev));
}

/// SigningKey::from_bytes into a named in-memory object ("reload from storage")
fn op_load<H: HashChain + 'static>(d: &mut Driver, cmd: &Value) {
    let alg = cmd["alg"].as_str().unwrap().to_string();
    let key = d.bytes(&cmd["key"]);
    let name = cmd["mem"].as_str().unwrap().to_string();
    let r = guarded(|| SigningKey::<H>::from_bytes(&key).map_err(|_| "err".to_string()));
    let mut ev = Map::new();
    ev.insert("ev".into(), json!("load"));
    ev.insert("alg".into(), json!(alg));
    ev.insert("mem".into(), json!(name));
    ev.insert("key".into(), json!(hex(&key)));
    ev.insert("res".into(), json!(res_str(&r)));
    match r {
        Ok(Ok(sk)) => {
            ev.insert("mem_after".into(), json!(hex(sk.as_slice())));
            d.mem.insert(name, Box::new(sk));
        }
        Err(m) => {
            ev.insert("mem_after".into(), json!(""));
            ev.insert("panic".into(), json!(m));
        }
        _ => {
            ev.insert("mem_after".into(), json!(""));
        }
    }
    copy_meta(cmd, &mut ev);
    d.emit(Value::Object(ev));
}

/// SigningKey::as_mut_slice: the caller overwrites the bytes of an existing in-memory object
fn op_poke<H: HashChain + 'static>(d: &mut Driver, cmd: &Value) {
    let alg = cmd["alg"].as_str().unwrap().to_string();
    let key = d.bytes(&cmd["key"]);
    let name = cmd["mem"].as_str().unwrap().to_string();
    if !d.mem.contains_key(&name) {
        emit_skip(d, cmd, "no in-memory key of that name (its load was refused)");
        return;
    }
    let sk = d.mem.get_mut(&name).unwrap().downcast_mut::<SigningKey<H>>().expect("driver: mem key of another hash");
    let r = guarded(|| {
        let dst = sk.as_mut_slice();
        if dst.len() != key.len() {
            return Err(format!("length {} != {}", dst.len(), key.len()));
        }
        dst.copy_from_slice(&key);
        Ok(())
    });
    let mut ev = Map::new();
    ev.insert("ev".into(), json!("poke"));
    ev.insert("alg".into(), json!(alg));
    ev.insert("mem".into(), json!(name));
    ev.insert("key".into(), json!(hex(&key)));
    ev.insert("res".into(), json!(res_str(&r)));
    ev.insert("mem_after".into(), json!(hex(sk.as_slice())));
    if let Err(m) = &r {
        ev.insert("panic".into(), json!(m));
    }
    copy_meta(cmd, &mut ev);
    d.emit(Value::Object(ev));
}

/// SigningKey::as_slice into a slot ("persist the in-memory key")
fn op_persist<H: HashChain + 'static>(d: &mut Driver, cmd: &Value) {
    let alg = cmd["alg"].as_str().unwrap().to_string();
    let name = cmd["mem"].as_str().unwrap().to_string();
    if !d.mem.contains_key(&name) {
        emit_skip(d, cmd, "no in-memory key of that name (its load was refused)");
        return;
    }
    let bytes = d
        .mem
        .get(&name)
        .unwrap()
        .downcast_ref::<SigningKey<H>>()
        .expect("driver: mem key of another hash")
        .as_slice()
        .to_vec();
    d.store(cmd, "key", &bytes);
    let mut ev = Map::new();
    ev.insert("ev".into(), json!("persist"));
    ev.insert("alg".into(), json!(alg));
    ev.insert("mem".into(), json!(name));
    ev.insert("key".into(), json!(hex(&bytes)));
    copy_meta(cmd, &mut ev);
    d.emit(Value::Object(ev));
}

/// Scenario search (no judging): a message whose LM-OTS digest Q = H(I || u32(q) || D_MESG || C || message) has a
/// checksum sum(2^w - 1 - digit) of at least `min_cksum` - a digest class ordinary messages reach once in millions
/// (for n = 32, w = 2: checksum >= 256, where the checksum needs its ninth bit).  The message goes into a slot; the
/// signature made over it afterwards is judged by TLC like any other.
fn op_find_msg<H: HashChain + 'static>(d: &mut Driver, cmd: &Value) {
    let id = d.bytes(&cmd["I"]);
    let q = d.bytes(&cmd["q"]);
    let c = d.bytes(&cmd["C"]);
    let w = cmd["w"].as_u64().unwrap() as u32;
    let min_cksum = cmd["min_cksum"].as_u64().unwrap() as u32;
    let max_tries = cmd.get("max_tries").and_then(|x| x.as_u64()).unwrap_or(40_000_000);
    let mut prefix = Vec::new();
    prefix.extend_from_slice(&id);
    prefix.extend_from_slice(&q);
    prefix.extend_from_slice(&[0x81, 0x81]);
    prefix.extend_from_slice(&c);
    let per = 8 / w;
    let max_digit = (1u32 << w) - 1;
    let mut found: Option<(u64, u32)> = None;
    for i in 0..max_tries {
        let msg = i.to_be_bytes();
        let qd = H::default().chain(&prefix[..]).chain(&msg[..]).finalize();
        let mut sum = 0u32;
        for b in qd.iter() {
            for k in 0..per {
                sum += max_digit - ((*b as u32 >> (w * k)) & max_digit);
            }
        }
        if sum >= min_cksum {
            found = Some((i, sum));
            break;
        }
        if i % 4096 == 0 {
            d.heartbeat.store(now_ms(), Ordering::Relaxed);
        }
    }
    let mut ev = Map::new();
    ev.insert("ev".into(), json!("skip"));
    ev.insert("op".into(), json!("find_msg"));
    match found {
        Some((i, sum)) => {
            d.store(cmd, "msg", &i.to_be_bytes());
            ev.insert("why".into(), json!(format!("scenario search: message {:016x} has checksum {}", i, sum)));
        }
        None => {
            d.store(cmd, "msg", b"no message found");
            ev.insert("why".into(), json!("scenario search: no message found within the budget"));
        }
    }
    copy_meta(cmd, &mut ev);
    d.emit(Value::Object(ev));
}

// ---- hooks -------------------------------------------------------------------------------------

fn op_hook<H: HashChain + 'static>(d: &mut Driver, cmd: &Value) {
    use hbs_lms::verif_hooks as vh;
    let alg = cmd["alg"].as_str().unwrap().to_string();
    let which = cmd["hook"].as_str().unwrap().to_string();
    let mut ev = Map::new();
    ev.insert("ev".into(), json!("hook"));
    ev.insert("hook".into(), json!(which));
    ev.insert("alg".into(), json!(alg));
    match which.as_str() {
        "ots_params" => {
            let t = cmd["type"].as_u64().unwrap() as u32;
            let r = guarded(|| vh::ots_params::<H>(t));
            ev.insert("type".into(), json!(t));
            match r {
                Ok(Some((n, w, p, ls))) => {
                    ev.insert("res".into(), json!("ok"));
                    ev.insert("n".into(), json!(n));
                    ev.insert("w".into(), json!(w));
                    ev.insert("p".into(), json!(p));
                    ev.insert("ls".into(), json!(ls));
                }
                Ok(None) => {
                    ev.insert("res".into(), json!("none"));
                }
                Err(m) => {
                    ev.insert("res".into(), json!("panic"));
                    ev.insert("panic".into(), json!(m));
                }
            }
        }
        "digits" => {
            let t = cmd["type"].as_u64().unwrap() as u32;
            let q = d.bytes(&cmd["digest"]);
            let mut out = [0u8; 300];
            let r = guarded(|| vh::digits::<H>(t, &q, &mut out));
            ev.insert("type".into(), json!(t));
            ev.insert("digest".into(), json!(hex(&q)));
            match r {
                Ok(Some(cnt)) => {
                    ev.insert("res".into(), json!("ok"));
                    // one byte per digit, as hex
                    ev.insert("digits".into(), json!(hex(&out[..cnt])));
                }
                Ok(None) => {
                    ev.insert("res".into(), json!("none"));
                    ev.insert("digits".into(), json!(""));
                }
                Err(m) => {
                    ev.insert("res".into(), json!("panic"));
                    ev.insert("digits".into(), json!(""));
                    ev.insert("panic".into(), json!(m));
                }
            }
        }
        "ctr" => {
            // counter arithmetic: digits, successor, lifetime for (parameter bytes, counter)
            let pb = d.bytes(&cmd["params"]);
            let ctr_bytes = d.bytes(&cmd["ctr"]);
            let mut c8 = [0u8; 8];
            c8.copy_from_slice(&ctr_bytes);
            let ctr = u64::from_be_bytes(c8);
            let heights: Vec<u8> = cmd["heights"]
                .as_array()
                .unwrap()
                .iter()
                .map(|h| h.as_u64().unwrap() as u8)
                .collect();
            ev.insert("params".into(), json!(hex(&pb)));
            ev.insert("heights".into(), cmd["heights"].clone());
            ev.insert("ctr".into(), json!(hex(&ctr_bytes)));
            let rd = guarded(|| {
                let mut out = [0u32; 8];
                vh::ctr_digits::<H>(&pb, ctr, &mut out).map(|n| out[..n].to_vec())
            });
            match rd {
                Ok(Some(v)) => {
                    ev.insert("digits_res".into(), json!("ok"));
                    ev.insert("digits".into(), json!(v.iter().map(|x| format!("{:08x}", x)).collect::<Vec<_>>()));
                }
                Ok(None) => {
                    ev.insert("digits_res".into(), json!("none"));
                    ev.insert("digits".into(), json!([]));
                }
                Err(m) => {
                    ev.insert("digits_res".into(), json!("panic"));
                    ev.insert("digits".into(), json!([]));
                    ev.insert("panic".into(), json!(m));
                }
            }
            let rs = guarded(|| vh::ctr_succ(&heights, ctr));
            match rs {
                Ok(Some(v)) => {
                    ev.insert("succ_res".into(), json!("ok"));
                    ev.insert("succ".into(), json!(format!("{:016x}", v)));
                }
                Ok(None) => {
                    ev.insert("succ_res".into(), json!("wipe"));
                    ev.insert("succ".into(), json!(""));
                }
                Err(m) => {
                    ev.insert("succ_res".into(), json!("panic"));
                    ev.insert("succ".into(), json!(""));
                    ev.insert("panic".into(), json!(m));
                }
            }
            let rl = guarded(|| vh::ctr_lifetime::<H>(&pb, ctr));
            match rl {
                Ok(Some(v)) => {
                    ev.insert("life_res".into(), json!("ok"));
                    ev.insert("life".into(), json!(format!("{:016x}", v)));
                }
                Ok(None) => {
                    ev.insert("life_res".into(), json!("none"));
                    ev.insert("life".into(), json!(""));
                }
                Err(m) => {
                    ev.insert("life_res".into(), json!("panic"));
                    ev.insert("life".into(), json!(""));
                    ev.insert("panic".into(), json!(m));
                }
            }
        }
        "root" => {
            let key = d.bytes(&cmd["key"]);
            let r = guarded(|| vh::root_seed_and_id::<H>(&key));
            ev.insert("key".into(), json!(hex(&key)));
            match r {
                Ok(Some((seed, id))) => {
                    ev.insert("res".into(), json!("ok"));
                    ev.insert("seed".into(), json!(hex(seed.as_slice())));
                    ev.insert("I".into(), json!(hex(&id)));
                }
                Ok(None) => {
                    ev.insert("res".into(), json!("none"));
                    ev.insert("seed".into(), json!(""));
                    ev.insert("I".into(), json!(""));
                }
                Err(m) => {
                    ev.insert("res".into(), json!("panic"));
                    ev.insert("seed".into(), json!(""));
                    ev.insert("I".into(), json!(""));
                    ev.insert("panic".into(), json!(m));
                }
            }
        }
        // seed derivation below a tree (C08): child seed / identifier, randomizer, chain start values
        "derive" => {
            let seed = d.bytes(&cmd["seed"]);
            let id = d.bytes(&cmd["I"]);
            let q = u32::from_str_radix(cmd["q"].as_str().unwrap(), 16).unwrap();
            let ty = cmd["type"].as_u64().unwrap() as u32;
            let r = guarded(|| vh::derive_below::<H>(&seed, &id, q, ty));
            ev.insert("seed".into(), json!(hex(&seed)));
            ev.insert("I".into(), json!(hex(&id)));
            ev.insert("q".into(), json!(format!("{:08x}", q)));
            ev.insert("type".into(), json!(ty));
            let put = |ev: &mut Map<String, Value>, res: &str, v: [String; 5], panic: Option<String>| {
                ev.insert("res".into(), json!(res));
                for (k, x) in ["child_seed", "child_I", "randomizer", "x_first", "x_last"].iter().zip(v.iter()) {
                    ev.insert((*k).into(), json!(x));
                }
                if let Some(m) = panic {
                    ev.insert("panic".into(), json!(m));
                }
            };
            match r {
                Ok(Some((cs, ci, c, xf, xl))) => put(&mut ev, "ok", [hex(cs.as_slice()), hex(&ci), hex(c.as_slice()), hex(xf.as_slice()), hex(xl.as_slice())], None),
                Ok(None) => put(&mut ev, "none", Default::default(), None),
                Err(m) => put(&mut ev, "panic", Default::default(), Some(m)),
            }
        }
        "zeroize" => {
            let ty = cmd["type_name"].as_str().unwrap().to_string();
            let fill = cmd["fill"].as_u64().unwrap() as u8;
            let r = guarded(|| vh::zeroize_probe::<H>(&ty, fill));
            ev.insert("type_name".into(), json!(ty));
            ev.insert("fill".into(), json!(fill));
            match r {
                Ok(Some((before, after))) => {
                    ev.insert("res".into(), json!("ok"));
                    ev.insert("secret_before".into(), json!(before));
                    ev.insert("surviving".into(), json!(after));
                }
                _ => {
                    ev.insert("res".into(), json!("none"));
                    ev.insert("secret_before".into(), json!(0));
                    ev.insert("surviving".into(), json!(0));
                }
            }
        }
        "drop" => {
            let ty = cmd["type_name"].as_str().unwrap().to_string();
            let fill = cmd["fill"].as_u64().unwrap() as u8;
            let r = guarded(|| probe::drop_probe::<H>(&ty, fill));
            ev.insert("type_name".into(), json!(ty));
            ev.insert("fill".into(), json!(fill));
            match r {
                Ok(Some((size, before, after))) => {
                    ev.insert("res".into(), json!("ok"));
                    ev.insert("size".into(), json!(size));
                    ev.insert("secret_before".into(), json!(before));
                    ev.insert("surviving".into(), json!(after));
                }
                _ => {
                    ev.insert("res".into(), json!("none"));
                    ev.insert("size".into(), json!(0));
                    ev.insert("secret_before".into(), json!(0));
                    ev.insert("surviving".into(), json!(0));
                }
            }
        }
        other => panic!("driver: unknown hook {}", other),
    }
    copy_meta(cmd, &mut ev);
    d.emit(Value::Object(ev));
}

macro_rules! dispatch {
    ($alg:expr, $f:ident, $d:expr, $cmd:expr) => {
        match $alg {
            "sha256_n32" => $f::<Sha256_256>($d, $cmd),
            "sha256_n24" => $f::<Sha256_192>($d, $cmd),
            "sha256_n16" => $f::<Sha256_128>($d, $cmd),
            "shake256_n32" => $f::<Shake256_256>($d, $cmd),
            "shake256_n24" => $f::<Shake256_192>($d, $cmd),
            "shake256_n16" => $f::<Shake256_128>($d, $cmd),
            other => panic!("driver: unknown alg {}", other),
        }
    };
}

fn exec(d: &mut Driver, cmd: &Value) {
    let op = cmd["op"].as_str().unwrap().to_string();
    match op.as_str() {
        "reset" => {
            d.slots.clear();
            d.mem.clear();
            d.vks.clear();
            let mut ev = Map::new();
            ev.insert("ev".into(), json!("reset"));
            copy_meta(cmd, &mut ev);
            d.emit(Value::Object(ev));
        }
        // the process "dies": every in-memory SigningKey object is gone, slots (storage) stay
        "crash" => {
            d.mem.clear();
            let mut ev = Map::new();
            ev.insert("ev".into(), json!("crash"));
            copy_meta(cmd, &mut ev);
            d.emit(Value::Object(ev));
        }
        "set" => {
            let v = d.bytes(&cmd["value"]);
            d.slots.insert(cmd["slot"].as_str().unwrap().to_string(), v);
        }
        // C09: the same commands from n concurrent threads, each with its own copy of the slots;
        // events carry the thread number and are written thread by thread after the join (no
        // cross-thread order is claimed: the specification has no cross-key state)
        "threads" => {
            let n = cmd["n"].as_u64().unwrap() as usize;
            let cmds: Vec<Value> = cmd["cmds"].as_array().unwrap().clone();
            let mut handles = Vec::new();
            for t in 0..n {
                let slots = d.slots.clone();
                let cmds = cmds.clone();
                let seed = d.seed;
                let hb = d.heartbeat.clone();
                let buf = SharedBuf(Arc::new(std::sync::Mutex::new(Vec::new())));
                let buf2 = buf.clone();
                let h = std::thread::Builder::new()
                    .stack_size(256 << 20)
                    .spawn(move || {
                        let mut td = Driver {
                            seed,
                            slots,
                            mem: HashMap::new(),
                            vks: HashMap::new(),
                            out: Box::new(buf2),
                            next_id: 1000 * (t as u64 + 1),
                            heartbeat: hb,
                            tag: Some(("thread".to_string(), json!(t))),
                        };
                        for c in cmds.iter() {
                            exec(&mut td, c);
                        }
                    })
                    .unwrap();
                handles.push((h, buf));
            }
            for (h, buf) in handles {
                h.join().expect("driver: worker thread failed");
                let bytes = buf.0.lock().unwrap().clone();
                d.out.write_all(&bytes).unwrap();
            }
        }
        // C09: the same commands in a freshly started process (slots are handed over as literals)
        "subprocess" => {
            let dir = std::env::temp_dir().join(format!("verif-sub-{}-{}", std::process::id(), d.next_id));
            std::fs::create_dir_all(&dir).unwrap();
            let scen = dir.join("scenario.ndjson");
            let trace = dir.join("trace.ndjson");
            {
                let mut f = std::fs::File::create(&scen).unwrap();
                for (k, v) in d.slots.iter() {
                    writeln!(f, "{}", json!({"op":"set","slot":k,"value":hex(v)})).unwrap();
                }
                for c in cmd["cmds"].as_array().unwrap() {
                    writeln!(f, "{}", c).unwrap();
                }
            }
            let st = std::process::Command::new(std::env::current_exe().unwrap())
                .arg(&scen)
                .arg(&trace)
                .arg(d.seed.to_string())
                .status()
                .expect("driver: cannot start child process");
            assert!(st.success(), "driver: child process failed");
            for line in std::io::BufReader::new(std::fs::File::open(&trace).unwrap()).lines() {
                let mut v: Value = serde_json::from_str(&line.unwrap()).unwrap();
                v.as_object_mut().unwrap().insert("process".into(), json!("child"));
                d.emit(v);
            }
            let _ = std::fs::remove_dir_all(&dir);
            d.next_id += 1;
        }
        "info" => {
            let ev = json!({"ev":"info",
                "fast_verify": cfg!(feature = "fast_verify"),
                "verbose": cfg!(feature = "verbose"),
                "max_sig_len": hbs_lms_max_sig_len(),
                "env": {
                    "levels": option_env!("HBS_LMS_MAX_ALLOWED_HSS_LEVELS"),
                    "heights": option_env!("HBS_LMS_TREE_HEIGHTS"),
                    "winternitz": option_env!("HBS_LMS_WINTERNITZ_PARAMETERS"),
                    "threads": option_env!("HBS_LMS_THREADS"),
                    "max_hash_optimizations": option_env!("HBS_LMS_MAX_HASH_OPTIMIZATIONS"),
                }});
            d.emit(ev);
        }
        _ => {
            let alg = cmd["alg"].as_str().expect("alg").to_string();
            match op.as_str() {
                "keygen" => dispatch!(alg.as_str(), op_keygen, d, cmd),
                "sign" | "sign_mut" => dispatch!(alg.as_str(), op_sign, d, cmd),
                "verify" => dispatch!(alg.as_str(), op_verify, d, cmd),
                "lifetime" => dispatch!(alg.as_str(), op_lifetime, d, cmd),
                "load" => dispatch!(alg.as_str(), op_load, d, cmd),
                "persist" => dispatch!(alg.as_str(), op_persist, d, cmd),
                "poke" => dispatch!(alg.as_str(), op_poke, d, cmd),
                "hook" => dispatch!(alg.as_str(), op_hook, d, cmd),
                "find_msg" => dispatch!(alg.as_str(), op_find_msg, d, cmd),
                other => panic!("driver: unknown op {}", other),
            }
        }
    }
}

fn run(scenario: &str, out: &str, seed: u64, heartbeat: Arc<AtomicU64>) {
    let f = std::fs::File::open(scenario).expect("scenario file");
    let out = BufWriter::new(std::fs::File::create(out).expect("trace file"));
    let mut d = Driver {
        seed,
        slots: HashMap::new(),
        mem: HashMap::new(),
        vks: HashMap::new(),
        out: Box::new(out),
        next_id: 1,
        heartbeat,
        tag: None,
    };
    for line in std::io::BufReader::new(f).lines() {
        let line = line.unwrap();
        if line.trim().is_empty() {
            continue;
        }
        let cmd: Value = serde_json::from_str(&line).expect("scenario json");
        d.heartbeat.store(now_ms(), Ordering::SeqCst);
        exec(&mut d, &cmd);
        d.out.flush().unwrap();
    }
    d.heartbeat.store(u64::MAX, Ordering::SeqCst);
}

fn hbs_lms_max_sig_len() -> usize {
    // capacity of Signature: the largest length from_bytes accepts (binary search is overkill;
    // probe downwards from a generous bound in steps, then refine)
    let mut lo = 0usize;
    let mut hi = 1usize << 18;
    while lo < hi {
        let mid = (lo + hi + 1) / 2;
        let v = vec![0u8; mid];
        if guarded(|| <Signature as SigTrait>::from_bytes(&v).is_ok()).unwrap_or(false) {
            lo = mid;
        } else {
            hi = mid - 1;
        }
    }
    lo
}

fn main() {
    let args: Vec<String> = std::env::args().collect();
    if args.len() < 3 {
        eprintln!("usage: driver <scenario.ndjson> <trace.ndjson> [seed]");
        std::process::exit(2);
    }
    let seed: u64 = args.get(3).and_then(|s| s.parse().ok()).unwrap_or_else(|| {
        std::env::var("VERIF_SEED")
            .ok()
            .and_then(|s| s.parse().ok())
            .unwrap_or(0)
    });
    let hang_ms: u64 = std::env::var("VERIF_HANG_MS")
        .ok()
        .and_then(|s| s.parse().ok())
        .unwrap_or(120_000);
    // library panics are data: keep stderr quiet, except for the driver's own failures
    std::panic::set_hook(Box::new(|info| {
        let msg = info.to_string();
        if msg.contains("driver:") {
            eprintln!("{}", msg);
        }
    }));
    let heartbeat = Arc::new(AtomicU64::new(now_ms()));
    let hb2 = heartbeat.clone();
    let scenario = args[1].clone();
    let out = args[2].clone();
    let out2 = out.clone();
    // watchdog: a single library call that does not return within hang_ms is recorded as a hang
    std::thread::spawn(move || loop {
        std::thread::sleep(std::time::Duration::from_millis(500));
        let t = hb2.load(Ordering::SeqCst);
        if t == u64::MAX {
            return;
        }
        if now_ms().saturating_sub(t) > hang_ms {
            if let Ok(mut f) = std::fs::OpenOptions::new().append(true).open(&out2) {
                let _ = writeln!(f, "{}", json!({"ev":"hang","after_ms":hang_ms}));
            }
            std::process::exit(3);
        }
    });
    // the library's fixed-capacity structures are large (the repository sets RUST_MIN_STACK for
    // its own tests); stack exhaustion is not a listed property, so give the calls room
    let worker = std::thread::Builder::new()
        .stack_size(512 << 20)
        .spawn(move || run(&scenario, &out, seed, heartbeat))
        .unwrap();
    match worker.join() {
        Ok(()) => {}
        Err(e) => {
            eprintln!("driver failed: {}", panic_message(e));
            std::process::exit(2);
        }
    }
}
