//! Drop-time wiping probe.  The crate forbids `unsafe`, so the in-place drop happens here:
//! a populated value (every secret byte = `fill`) is moved into zeroed storage owned by the
//! probe, dropped in place, and the storage is scanned for surviving `fill` bytes.

use hbs_lms::verif_hooks::{populated_secret, SecretValue};
use hbs_lms::HashChain;
use std::mem::{size_of, MaybeUninit};

fn count(bytes: &[u8], fill: u8) -> usize {
    bytes.iter().filter(|&&b| b == fill).count()
}

/// offsets whose byte equals `fill` before the drop, and after it
fn probe_offsets<T>(value: T, fill: u8) -> (usize, Vec<usize>, Vec<usize>) {
    let mut slot: Box<MaybeUninit<T>> = Box::new(MaybeUninit::uninit());
    let size = size_of::<T>();
    unsafe {
        std::ptr::write_bytes(slot.as_mut_ptr() as *mut u8, 0, size);
        std::ptr::write(slot.as_mut_ptr(), value);
        let p = slot.as_ptr() as *const u8;
        let before: Vec<usize> = (0..size).filter(|&i| std::ptr::read_volatile(p.add(i)) == fill).collect();
        std::ptr::drop_in_place(slot.as_mut_ptr());
        let after: Vec<usize> = (0..size).filter(|&i| std::ptr::read_volatile(p.add(i)) == fill).collect();
        (size, before, after)
    }
}

#[allow(dead_code)]
fn probe_one<T>(value: T, fill: u8) -> (usize, usize, usize) {
    let mut slot: Box<MaybeUninit<T>> = Box::new(MaybeUninit::uninit());
    let size = size_of::<T>();
    unsafe {
        std::ptr::write_bytes(slot.as_mut_ptr() as *mut u8, 0, size);
        std::ptr::write(slot.as_mut_ptr(), value);
        let raw = std::slice::from_raw_parts(slot.as_ptr() as *const u8, size);
        let before = count(raw, fill);
        std::ptr::drop_in_place(slot.as_mut_ptr());
        // volatile reads: the compiler must not assume anything about dropped storage
        let mut after = 0usize;
        let p = slot.as_ptr() as *const u8;
        for i in 0..size {
            if std::ptr::read_volatile(p.add(i)) == fill {
                after += 1;
            }
        }
        (size, before, after)
    }
}

fn offsets<H: HashChain>(type_name: &str, fill: u8) -> Option<(usize, Vec<usize>, Vec<usize>)> {
    if type_name == "SeedFromArray" {
        // the public constructor: the value holds all 32 bytes of the caller's array, whatever the hash output size
        return Some(probe_offsets(hbs_lms::Seed::<H>::from([fill; 32]), fill));
    }
    Some(match populated_secret::<H>(type_name, fill)? {
        SecretValue::Seed(v) => probe_offsets(v, fill),
        SecretValue::SeedAndId(v) => probe_offsets(v, fill),
        SecretValue::RefKey(v) => probe_offsets(v, fill),
        SecretValue::Lms(v) => probe_offsets(v, fill),
        SecretValue::Lmots(v) => probe_offsets(v, fill),
    })
}

/// (size of the value, secret bytes before the drop, secret bytes surviving it).
/// The probe runs twice, with `fill` and with its complement: a byte position counts only when it
/// holds the sentinel in BOTH runs, so padding and non-secret fields that happen to equal one
/// sentinel value are not mistaken for secret bytes.
pub fn drop_probe<H: HashChain>(type_name: &str, fill: u8) -> Option<(usize, usize, usize)> {
    let (size, b1, a1) = offsets::<H>(type_name, fill)?;
    let (_, b2, a2) = offsets::<H>(type_name, !fill)?;
    let before = b1.iter().filter(|i| b2.contains(i)).count();
    let after = a1.iter().filter(|i| a2.contains(i)).count();
    Some((size, before, after))
}
