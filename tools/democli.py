#!/usr/bin/env python3
"""Recorder for the repository's command line example (examples/lms-demo.rs): builds it from /repo's working tree,
drives genkey / sign / verify through FILES in a scratch directory and records one event per invocation from the
files it finds afterwards (the same event format the Rust harness writes).  No expected values: TLC judges."""
import os
import shutil
import subprocess
import tempfile

from vlib import WORK, ToolError, det_bytes

TARGET = os.path.join(WORK, "target-demo")
BIN = os.path.join(TARGET, "release", "examples", "lms-demo")


def build_demo(timeout=1500):
    env = dict(os.environ)
    env["CARGO_TARGET_DIR"] = TARGET
    env["CARGO_NET_OFFLINE"] = "true"
    repo = os.environ.get("VERIF_REPO") or os.environ.get("VP_RUN_REPO") or "/repo"
    p = subprocess.run(["cargo", "build", "--release", "--offline", "--quiet", "--example", "lms-demo"], cwd=repo, env=env,
                       stdout=subprocess.PIPE, stderr=subprocess.STDOUT, timeout=timeout)
    if p.returncode != 0:
        raise ToolError("lms-demo build failed: " + p.stdout.decode(errors="replace")[-2000:])


def rd(path):
    return open(path, "rb").read() if os.path.exists(path) else None


def run(args, cwd):
    p = subprocess.run([BIN] + args, cwd=cwd, stdout=subprocess.PIPE, stderr=subprocess.STDOUT, timeout=600)
    return p.returncode, p.stdout.decode(errors="replace")


def record_walk(name, params, aux_size, nsign, extra_after=2):
    """params: [(w, h)] with h in 5.. ; returns a list of events"""
    d = tempfile.mkdtemp(prefix="verif-demo-", dir=WORK)
    ev = []
    try:
        seed = det_bytes("demo/" + name, 32)
        spec = ",".join("%d/%d" % (h, w) for w, h in params) + ":%d" % aux_size
        rc, out = run(["genkey", "k", spec, "--seed", seed.hex()], d)
        prv, pub, aux = rd(os.path.join(d, "k.prv")), rd(os.path.join(d, "k.pub")), rd(os.path.join(d, "k.aux"))
        ok = rc == 0 and prv is not None and pub is not None
        ev.append({"ev": "keygen", "alg": "sha256_n32", "params": [list(p) for p in params], "seed": seed.hex(), "has_aux": True,
                   "aux_in": "00" * aux_size, "res": "ok" if ok else ("panic" if "panicked" in out else "err"),
                   "sk": prv.hex() if prv else "", "pk": pub.hex() if pub else "",
                   "aux_out": (aux or b"").hex(), "aux_len": len(aux or b""), "panic": out[-200:] if not ok else "",
                   "meta": {"recorder": "lms-demo", "class": "fresh_zero_roomy"}})
        for i in range(nsign + extra_after):
            msg = det_bytes("demo/%s/msg/%d" % (name, i), 10 + 37 * i)
            with open(os.path.join(d, "m%d" % i), "wb") as f:
                f.write(msg)
            before = rd(os.path.join(d, "k.prv"))
            aux_before = rd(os.path.join(d, "k.aux")) or b""
            rc, out = run(["sign", "k", "m%d" % i], d)
            after = rd(os.path.join(d, "k.prv"))
            sig = rd(os.path.join(d, "m%d.sig" % i))
            changed = after != before
            res = "ok" if (rc == 0 and sig is not None) else ("panic" if "panicked" in out else "err")
            ev.append({"ev": "sign", "id": i, "alg": "sha256_n32", "api": "bytes", "plan": "accept", "key": before.hex(), "msg": msg.hex(),
                       "msg_out": msg.hex(), "has_aux": True, "aux_in": aux_before.hex(), "aux_out": "", "aux_len": 0,
                       "cb": [{"arg": after.hex(), "ret": "ok"}] if changed else [], "cb_n": 1 if changed else 0,
                       "res": res, "sig": sig.hex() if (sig and res == "ok") else "", "hash_iterations": 0,
                       "has_mem": False, "mem_after": "", "stored": changed, "stored_key": after.hex() if changed else "",
                       "panic": out[-200:] if res == "panic" else "", "meta": {"recorder": "lms-demo"}})
            if res == "ok":
                rcv, _ = run(["verify", "k", "m%d" % i], d)
                r = "ok" if rcv == 0 else "err"
                ev.append({"ev": "verify", "alg": "sha256_n32", "msg": msg.hex(), "sig": sig.hex(), "pk": pub.hex(), "res": r,
                           "vk_from": "ok", "sig_from": "ok", "vk_sig": r, "vk_ref": r, "meta": {"recorder": "lms-demo"}})
                # a tampered message file must be refused by the command line verifier as well
                with open(os.path.join(d, "m%d" % i), "wb") as f:
                    f.write(msg + b"!")
                rcv, _ = run(["verify", "k", "m%d" % i], d)
                r = "ok" if rcv == 0 else "err"
                ev.append({"ev": "verify", "alg": "sha256_n32", "msg": (msg + b"!").hex(), "sig": sig.hex(), "pk": pub.hex(), "res": r,
                           "vk_from": "ok", "sig_from": "ok", "vk_sig": r, "vk_ref": r, "meta": {"recorder": "lms-demo", "class": "msg_extend"}})
    finally:
        shutil.rmtree(d, ignore_errors=True)
    return ev


def demo_groups(quick):
    build_demo()
    groups = []
    shapes = [("h5w4", [(4, 5)], 2000, 32), ("h5w2-h5w4-rollover", [(2, 5), (4, 5)], 3000, 34)]
    if not quick:
        shapes += [("h5w8-smallaux", [(8, 5)], 300, 5), ("h5w1-noaux", [(1, 5)], 10, 3), ("h5w4-h5w8-h5w4", [(4, 5), (8, 5), (4, 5)], 100000, 4)]
    for name, params, aux, n in shapes:
        groups.append({"name": "demo/" + name, "events": record_walk(name, params, aux, n), "cost": 5 + n})
    return groups
