#!/usr/bin/env python3
"""Scenario construction helpers (commands for the Rust harness).  No expected values here."""
import json
import os

from vlib import ALGS, N_OF, SPEC, WORK, ToolError, det_bytes, det_int, run_tlc


def seed_hex(tag, alg):
    return det_bytes("seed/" + tag, N_OF[alg]).hex()


def msg_hex(tag, length):
    return det_bytes("msg/" + tag, length).hex()


def slot(name):
    return {"slot": name}


def key_at(name, ctr):
    """the key blob in slot `name` with its 8-byte counter replaced"""
    return {"mut": slot(name), "kind": "set", "off": 0, "with": "%016x" % ctr}


def lifetime_of(params):
    return 1 << sum(h for _, h in params)


def tree_cost(alg, w, h):
    n = N_OF[alg]
    p = {1: 8 * n + 9, 2: 4 * n + 5, 4: 2 * n + 3, 8: n + 2}[w]
    return (1 << h) * p * ((1 << w) - 1) * 25e-6 + 0.02


def sign_cost(alg, params):
    n = N_OF[alg]
    c = 0.0
    for w, h in params:
        p = {1: 8 * n + 9, 2: 4 * n + 5, 4: 2 * n + 3, 8: n + 2}[w]
        c += p * (1 << w) * 25e-6 / 2 + 0.005
    return c


def cmd_keygen(alg, params, seed, aux=None, out=None, meta=None):
    c = {"op": "keygen", "alg": alg, "params": [list(p) for p in params], "seed": seed}
    if aux is not None:
        c["aux"] = aux
    c["out"] = out or {"sk": "sk", "pk": "pk"}
    if meta:
        c["meta"] = meta
    return c


def cmd_sign(alg, key, msg, out=None, plan="accept", api="bytes", mem=None, aux=None, meta=None, light=False):
    c = {"op": "sign", "alg": alg, "api": api, "msg": msg, "plan": plan}
    if api == "bytes":
        c["key"] = key
    else:
        c["mem"] = mem
    if aux is not None:
        c["aux"] = aux
    if out:
        c["out"] = out
    if meta:
        c["meta"] = meta
    if light:
        c["light"] = True
    return c


def cmd_verify(alg, msg, sig, pk, meta=None):
    c = {"op": "verify", "alg": alg, "msg": msg, "sig": sig, "pk": pk}
    if meta:
        c["meta"] = meta
    return c


def cmd_lifetime(alg, key=None, mem=None, meta=None):
    c = {"op": "lifetime", "alg": alg}
    if mem:
        c["mem"] = mem
    else:
        c["key"] = key
    if meta:
        c["meta"] = meta
    return c


def walk_group(name, alg, params, ctrs, msg_lens, seedtag=None, verify=True, lifetime=False, chain=False, light=False):
    """keygen, then one signature per counter (key blob with the counter patched in, or - with
    chain=True - the real successor chain starting at ctrs[0]), each verified."""
    seedtag = seedtag or name
    cmds = [cmd_keygen(alg, params, seed_hex(seedtag, alg))]
    cost = tree_cost(alg, *params[0])
    if chain:
        cmds.append({"op": "set", "slot": "cur", "value": key_at("sk", ctrs[0])})
    seen_sub = set()
    for i, c in enumerate(ctrs):
        m = msg_hex("%s/%d" % (name, i), msg_lens[i % len(msg_lens)])
        key = slot("cur") if chain else key_at("sk", c)
        if lifetime:
            cmds.append(cmd_lifetime(alg, key))
        cmds.append(cmd_sign(alg, key, m, out={"sig": "sig", "next": "cur"}, light=light))
        if verify:
            cmds.append(cmd_verify(alg, m, slot("sig"), slot("pk")))
        if not light:
            cost += sign_cost(alg, params)
            # subtree changes
            rem = c
            for lvl in range(len(params) - 1, 0, -1):
                rem >>= params[lvl][1]
                if (lvl, rem) not in seen_sub:
                    seen_sub.add((lvl, rem))
                    cost += tree_cost(alg, *params[lvl])
    if lifetime:
        cmds.append(cmd_lifetime(alg, slot("cur")))
    return {"name": name, "cmds": cmds, "cost": cost}


def layouts(items, workdir):
    """ask the specification (GenLayout.tla) for the field layout of signatures / public keys"""
    os.makedirs(workdir, exist_ok=True)
    inp = os.path.join(workdir, "layout_in.ndjson")
    outp = os.path.join(workdir, "layout_out.ndjson")
    with open(inp, "w") as f:
        for alg, params in items:
            f.write(json.dumps({"alg": alg, "params": [list(p) for p in params]}) + "\n")
    rc, out, st = run_tlc("GenLayout", "GenLayout.cfg", os.path.join(workdir, "meta-layout"),
                          env={"GEN_IN": inp, "GEN_OUT": outp}, timeout=600)
    if rc != 0 or not os.path.exists(outp):
        raise ToolError("GenLayout failed: " + out[-2000:])
    res = {}
    for line in open(outp):
        r = json.loads(line)
        res[(r["alg"], json.dumps(r["params"]))] = r
    return res


def layout_of(lay, alg, params):
    return lay[(alg, json.dumps([list(p) for p in params]))]
