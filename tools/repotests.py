#!/usr/bin/env python3
"""Recorder for the repository's OWN test suite: builds and runs `cargo test` in /repo's working tree with
--cfg hbs_lms_verif and HBS_LMS_VERIF_TRACE pointing at a scratch file, so that every keygen / sign / verify call the
suite makes (unit tests, integration tests, doc tests) is recorded with all inputs and outputs by the call-tracing
hook (src/verif_trace.rs).  No expected values: TLC judges every recorded call against the TLA+ reference - the suite's
own assertions only check that signatures verify."""
import json
import os
import subprocess

from vlib import WORK, ToolError

TARGET = os.path.join(WORK, "target-repotests")


def record(workdir, features=(), timeout=2400):
    trace = os.path.join(workdir, "repo-tests-%s.ndjson" % ("-".join(features) or "default"))
    if os.path.exists(trace):
        os.remove(trace)
    env = dict(os.environ)
    env["CARGO_TARGET_DIR"] = TARGET
    env["CARGO_NET_OFFLINE"] = "true"
    env["RUSTFLAGS"] = "--cfg hbs_lms_verif --cfg hbs_lms_verif_trace"
    env["RUSTDOCFLAGS"] = "--cfg hbs_lms_verif --cfg hbs_lms_verif_trace"
    env["HBS_LMS_VERIF_TRACE"] = trace
    repo = os.environ.get("VERIF_REPO") or os.environ.get("VP_RUN_REPO") or "/repo"
    cmd = ["cargo", "test", "--workspace", "--no-fail-fast", "--offline"]
    if features:
        cmd += ["--features", ",".join(features)]
    p = subprocess.run(cmd, cwd=repo, env=env, stdout=subprocess.PIPE, stderr=subprocess.STDOUT, timeout=timeout)
    out = p.stdout.decode(errors="replace")
    failed = [l for l in out.splitlines() if l.startswith("test ") and l.rstrip().endswith("FAILED")]
    if "error: could not compile" in out or "error[" in out:
        # The tracing blocks sit inside hss_keygen / hss_sign_core / hss_verify and call them recursively: a change to the
        # signature of one of them breaks the traced build although the library itself (and the harness, which does not use
        # this flag) builds.  On the unchanged tree the traced build works; if it does not, this recorder has nothing to say
        # and the other phases of the check decide.
        return [], {"skipped": "the test suite does not build with --cfg hbs_lms_verif_trace on this tree", "events": 0}
    events = []
    if os.path.exists(trace):
        for line in open(trace):
            line = line.strip()
            if line:
                events.append(json.loads(line))      # a torn line would be a defect of the hook: let it raise
    if not events:
        raise ToolError("the repository's test suite produced no trace events: " + out[-1500:])
    # a test with a hasher of its own (none today) is outside the six variants the specification defines
    custom = [e for e in events if str(e.get("alg", "")).startswith("custom:")]
    events = [e for e in events if not str(e.get("alg", "")).startswith("custom:")]
    return events, {"suite_exit": p.returncode, "suite_failed_tests": failed[:10], "events": len(events), "custom_hasher_events_skipped": len(custom)}


def groups(ctx, features=()):
    events, stats = record(ctx["workdir"], features)
    # keygen events first inside a group helps the tree cache; keep the recorded order otherwise
    out = []
    chunk = 8
    for i in range(0, len(events), chunk):
        evs = events[i:i + chunk]
        cost = 1.0
        for e in evs:
            if e.get("ev") == "keygen":
                w, h = e["params"][0]
                cost += (1 << h) * {1: 270, 2: 400, 4: 1000, 8: 8700}[w] * 25e-6
            elif e.get("ev") == "sign":
                cost += 1.0
            else:
                cost += 0.3
        out.append({"name": "repo-tests/%s/%d" % ("-".join(features) or "default", i), "events": evs, "cost": cost})
    ctx.setdefault("repo_tests", {})["-".join(features) or "default"] = stats
    return out
