#!/usr/bin/env python3
"""Regenerates MANIFEST.json from the table below (kept next to the checks so they stay in step)."""
import json
import os
import subprocess

ROOT = os.path.dirname(os.path.dirname(os.path.abspath(__file__)))
NOTE = ("trusted: TLC/SANY (and Apalache for the inductive step of C03/C04); HashPrim.java (SHA-256, SHAKE256, hex; cross-checked on every run with "
        "hashlib AND with the pure TLA+ definitions Sha256Pure.tla / KeccakPure.tla); the Rust harness and the call-tracing hook as "
        "faithful recorder (negative controls: a corrupted record and a mutated specification are rejected); the TLA+ transcription of "
        "RFC 8554 / Appendix B / hash-sigs conventions (anchored by the RFC test vectors and spec-internal lemmas)")

CLAIMS = {
    "C01": ("model_checking", "complete lifetimes and roll-over walks of the real signer are recorded; TLC judges every released signature byte-for-byte "
            "against the TLA+ reference signer, re-verifies it with the TLA+ RFC 8554 verifier and requires all verification entry points of the code "
            "to accept it (fresh and long-lived VerifyingKey objects); shapes too tall to rebuild in TLC are judged at verify level; messages up to 128 KiB; "
            "signatures made while an aux buffer goes through the scripted histories of HssAux.tla",
            "trace validation against executable TLA+ reference (TLC), scenario walks over lifetimes"),
    "C02": ("model_checking", "TLC evaluates the TLA+ transcription of RFC 8554 section 6.3 / Alg. 4b / 6a on the very bytes the code saw - valid triples and "
            "structure-aware mutations of every field enumerated from the spec's format grammar (SigLayout/PubLayout); the outcome of every entry point "
            "must equal the specification's; HssSym.tla (symbolic section 6.3) is model checked over all recombinations of released components "
            "(accepted = contiguous segments of released chains; dropped checks yield counterexamples) and its recombinations are rebuilt from real "
            "signature bytes: symbolic verdict = byte-level reference = code; GenBack.tla builds public keys for relaxed readings of the leaf-range check; alterations "
            "that cancel under folded comparisons, consistent relabelling of type codes and one VerifyingKey object kept across calls are part of the space",
            "trace validation against TLA+ RFC 8554 verifier; mutation space enumerated from the spec's SigLayout and from the symbolic model HssSym (TLC)"),
    "C03": ("model_checking", "HssApi.tla (caller/library protocol with crashes, callback plans, reloads, both APIs) is model checked exhaustively for small "
            "shapes (NoReuse, ReleaseSafe, Monotone, DigitRule; negative models must yield counterexamples); behaviours of the model are replayed on the "
            "real library and the recorded executions are replayed through the SAME actions instantiated with byte-level operators, evaluating every "
            "invariant on concrete tree identifiers and leaf indices in every state; an inductive invariant of the integer reduction of the protocol "
            "(CounterInd.tla) is discharged by Apalache for every lifetime T",
            "TLC model checking of HssApi + Apalache inductive invariant (unbounded lifetime) + TLC-generated walks replayed on the code + trace validation (TraceApi)"),
    "C04": ("model_checking", "callback protocol (at most once, complete successor key, signature only after acceptance, nothing on failure) as invariants/action "
            "properties of HssApi with crashes between all steps; every recorded sign call is replayed step by step through the model and compared "
            "(callback count, argument, result, stored key) for all plans {accept, reject, crash before/after persisting} and bad keys; crash safety "
            "(released counters below the stored counter) is part of the inductive invariant Apalache discharges for every lifetime",
            "TLC model checking of HssApi + Apalache inductive invariant + trace validation (TraceApi) of fault-injected walks"),
    "C05": ("model_checking", "lifetime accounting, wipe at the last leaf and refusal afterwards are invariants of the model; complete lifetimes of the real "
            "library under every callback plan are recorded with a lifetime query around every step and validated (value = 2^T - counter, wiped key "
            "bytes, dead afterwards; lifetime queries go to the SigningKey object itself; a key from an all-zero seed; the last leaves of a 2^35 lifetime); pure counter "
            "arithmetic for tall shapes is replayed through the accessor",
            "TLC model checking of HssApi + trace validation of complete lifetime walks"),
    "C06": ("model_checking", "the specification's outcome domain for verification is {ok, err}: any panic or hang recorded from the real code is unmatchable; every "
            "prefix length of valid signatures/keys, header sweeps, absurd level counts, random and huge inputs are driven through all five entry points "
            "and judged by TLC",
            "trace validation (TLC) over exhaustive prefix/header spaces"),
    "C07": ("model_checking", "TLC recomputes every released signature from (key bytes, message) with the TLA+ reference signer (pre-image layouts, digit order, "
            "checksum, chain indices, path order, randomizer derivation all restated in TLA+) and demands byte equality, for 6 hashes x W x heights x levels "
            "x counters, and for every keygen/sign/verify call the repository's OWN test suite makes (recorded by the call-tracing hook)",
            "byte-exact trace validation against TLA+ reference signer (harness scenarios + traces recorded from the repository's test suite)"),
    "C08": ("model_checking", "TLC recomputes private-key blob, public key, top-level seed and tree identifier from (hash, parameter list, seed) with the TLA+ "
            "transcription of the hash-sigs derivation and demands byte equality; child seed / identifier, randomizer and chain start values are "
            "replayed through an accessor for leaf numbers up to 2^25-1 (no affordable tree reaches them)",
            "byte-exact trace validation against TLA+ key derivation (keygen events + derivation accessor)"),
    "C09": ("model_checking", "SpecKeygen/SpecSign take only (hash, params, seed) / (hash, key, message): every keygen/sign event of every walk (interleaved keys, both "
            "APIs, reloads, failures before) is validated against a function of its logged inputs only, and the ghost map inputs->outputs must stay a function; a key that stays in memory is driven "
            "through aux-buffer histories of HssAux.tla (buffer changes owner / is tampered with between calls) against the byte-level function",
            "trace validation: outputs judged as a function of logged inputs; ghost determinism map; threads / subprocess / in-memory-key histories"),
    "C11": ("model_checking", "outcome domain {ok(result), err}: parameter-list lengths 0..10, key lengths 0..64 through every entry point, all 256 values of each parameter "
            "byte, counters at/beyond 2^T, wiped keys, short/truncated/corrupted aux buffers are driven through the real code; a panic is unmatchable, an "
            "error where the spec computes a result (or vice versa) is a deviation, and no callback/signature may appear on error paths",
            "trace validation (TLC) over enumerated malformed-input spaces"),
    "C12": ("model_checking", "MC_Ots checks the Appendix-B lemmas on the spec exhaustively (12 parameter sets, every attainable checksum value, every digit position x "
            "byte value, all pairs of one-byte digests); the library's parameter table and its digit encoder (hook) are validated against the formulas for "
            "digests enumerated by GenDigests.tla (every type id the table answers for); END TO END the chain positions are pinned by byte-exact signatures for every "
            "(hash, w) and for a digest with checksum >= 256 found by search (n = 32, w = 2)",
            "TLC exhaustive lemma checking (MC_Ots) + hook trace validation"),
    "C10": ("model_checking", "SpecKeygen/SpecSign do not take the aux buffer as an argument: every keygen/sign event with ANY buffer (all lengths 0..full+n, fresh, "
            "garbage, other seed, padded, truncated, every single-bit corruption of a valid buffer, left over from signing) is validated byte-for-byte "
            "against the no-aux reference; after keygen on a fresh buffer the shrunk length, level word, cached levels and MAC are recomputed by Aux.tla; "
            "HssAux.tla (one buffer across calls: trust decision, fill, MAC, tampering) is model checked (AuxTransparent; no-MAC-check and no-clear variants "
            "yield counterexamples) and its behaviours (simulation + scripted) are replayed on the code",
            "TLC model checking of HssAux + byte-exact trace validation over enumerated aux-buffer classes and multi-step buffer histories"),
    "C13": ("model_checking", "MC_Arith checks on the spec that the mathematical digit rule (bit slices of the 64-bit counter) equals the shift-and-mask algorithm, "
            "that digits recompose, successor/last/lifetime arithmetic and its agreement with integer arithmetic, for all height tuples and boundary counters "
            "(tall lists included); the library's three pure functions are replayed through the hook for tuples x boundary counters the spec enumerates, and "
            "end to end through the leaf-index fields of signatures for mixed-height shapes, for counters beyond the lifetime (refused) and through the in-memory key "
            "at the end of its life",
            "TLC exhaustive checking of counter arithmetic (MC_Arith) + hook trace validation"),
    "C14": ("model_checking", "the limits are definitions of the specification (MaxLevels, MaxHeightAt, MinWAt) that only gate acceptance; the same harness is built "
            "under several HBS_LMS_* settings and every build's keygen/sign/verify/lifetime/aux/exhaustion events are validated against the SAME reference "
            "(hence identical keys and signatures), while lists one step beyond each limit must be refused with an error through every entry point; triples made by "
            "the default build are verified by every restricted build; the default build's own limits (8 levels, 65535-byte signatures) are exercised too",
            "trace validation of multiple build configurations against one TLA+ reference"),
    "C15": ("model_checking", "FastVerify.tla (PlusCal) explores every interleaving/arrival order of workers and collector; on the real code, fast_verify builds with several "
            "thread counts/budgets are driven over 6 hashes x W x message lengths and TLC requires: refusal cases consume nothing and leave the message untouched, "
            "only the trailer changes, the signature is byte-for-byte the ordinary reference signature of the RETURNED message, the callback protocol holds, "
            "and (verbose) hash_iterations equals the spec's digit sum; one process signs with all six hashes in turn; with and without aux buffers",
            "TLC model checking of the worker/collector race + byte-exact trace validation of sign_mut"),
    "C16": ("other", "drop-time wiping is a structural fact of Rust types that a TLA+ model cannot decide on its own: a memory probe (hook + harness: populated value "
            "dropped in place inside zeroed storage, storage scanned; zeroize() field scan) produces events that TLC judges against the SecretLifecycle/SecretTable "
            "specification (incl. a Seed made by the public constructor from a 32-byte array); the exhausted-key clause is decided by trace validation of complete "
            "lifetimes (callback argument = WipedKey) and, for shapes no walk can exhaust, by the successor accessor at the last leaf",
            "memory probe events judged by TLC against SecretLifecycle.tla; lifetime walks for the wiped key"),
}

ENGINE = {"name": "tla-trace", "path": "spec/", "kind_free_text":
          "TLA+ specification (spec/*.tla: data layer Bytes/Hash/LmOts/Lms/HssKey/Hss/Aux with pure TLA+ hash definitions, protocol layers HssApi / HssAux / "
          "HssSym / FastVerify, trace specs TraceBytes/TraceApi, generators Gen*.tla, model-checking configs MC_*, Apalache module spec/apalache/CounterInd) "
          "checked with TLC (and Apalache); Rust harness (harness/) and the call-tracing hook record the real library built from /repo with "
          "--cfg hbs_lms_verif; tools/check.py orchestrates"}


def main():
    props = [json.loads(l) for l in open(os.path.join(ROOT, "properties.jsonl"))]
    checks = []
    for pid, (level, text, tech) in CLAIMS.items():
        checks.append({"property_id": pid, "quick_cmd": "python3 tools/check.py %s --tier quick" % pid,
                       "thorough_cmd": "python3 tools/check.py %s --tier thorough" % pid,
                       "evidence_file": "evidence/%s.json" % pid,
                       "replay_cmd_template": "python3 tools/check.py %s --replay {path}" % pid, "engine": "tla-trace",
                       "level_claimed": {"category": level, "text": text, "design_ref": "DESIGN.md section 6 (%s)" % pid},
                       "level_note": NOTE, "technique": tech})
    na_reasons = json.load(open(os.path.join(ROOT, "tools", "not_applicable.json")))
    na = [{"property_id": p["id"], "reason": na_reasons.get(p["id"], "check not built yet (specification and harness are being extended; see DESIGN.md roadmap)")}
          for p in props if p["id"] not in CLAIMS]
    commits = subprocess.check_output("git -C /repo log --format=%H --grep='^verif hook'", shell=True).decode().split()
    eng = dict(ENGINE)
    eng["serves_properties"] = sorted(CLAIMS)
    m = {"version": 1, "setup_cmd": "sh tools/setup.sh",
         "hooks": {"guard": "hbs_lms_verif",
                   "enable": "harness/.cargo/config.toml passes `--cfg hbs_lms_verif` to rustc for the path dependency on /repo; the call-tracing blocks "
                             "additionally need `--cfg hbs_lms_verif_trace` (tools/repotests.py sets both when it records the repository's test suite)",
                   "baseline_off_cmd": "cd /repo && cargo test --workspace --no-fail-fast --offline",
                   "source_commits": commits, "add_only": True},
         "engines": [eng], "checks": checks, "not_applicable": na,
         "notes": "DESIGN.md explains the approach; KNOWN_FINDINGS.json lists recorded and fixed defects; seeded/ holds the confirmed breaking changes."}
    json.dump(m, open(os.path.join(ROOT, "MANIFEST.json"), "w"), indent=1)
    print("MANIFEST.json: %d checks, %d not applicable" % (len(checks), len(na)))


if __name__ == "__main__":
    main()
