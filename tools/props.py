#!/usr/bin/env python3
"""Per-property scenario spaces.  Every function returns commands for the harness; judging is TLC's."""
import json

from vlib import ALGS, N_OF, Variant, det_bytes, det_int
from scen import (cmd_keygen, cmd_lifetime, cmd_sign, cmd_verify, key_at, layout_of, layouts, lifetime_of, msg_hex,
                  seed_hex, sign_cost, slot, tree_cost, walk_group)

COMMON_ASSUMPTIONS = [
    "TLC 1.8.0 / SANY evaluate the TLA+ modules correctly",
    "HashPrim.java implements SHA-256 and SHAKE256 (cross-checked against python hashlib on every run)",
    "the Rust harness records inputs and outputs faithfully (negative controls: a corrupted record is rejected)",
    "the TLA+ transcription of RFC 8554 / Appendix B / hash-sigs conventions is right (anchored by the RFC 8554 test "
    "vectors in MC_Vectors and by spec-internal completeness checks)",
    "the library is built with --cfg hbs_lms_verif (adds the 4-leaf LmsH2 type and read-only accessors only)",
]

# output fields whose corruption the negative control tries, per event kind
CORRUPTIBLE = {"sign": ["sig", "stored_key", "mem_after"], "keygen": ["pk", "sk"], "lifetime": ["val"],
               "hook": ["digits", "life", "succ", "seed", "child_seed", "randomizer"], "verify": []}

MSG_LENS = [0, 1, 15, 16, 23, 24, 31, 32, 55, 56, 64, 300]


def replay_phases(path):
    rec = json.load(open(path))
    g = rec.get("group")
    if not g:
        raise SystemExit("replay file has no scenario group")
    variant = None
    if rec.get("variant"):
        variant = Variant(rec["variant"]["name"], rec["variant"].get("features", ()), rec["variant"].get("env"))
    return [{"tag": "replay", "groups": [g], "variant": variant, "controls": False,
             "trace_module": rec.get("trace_module", "TraceBytes"), "trace_cfg": rec.get("trace_cfg", "TraceBytes.cfg")}]


# =================================================================================================
# C07 - signatures are byte-exact RFC 8554 signatures for the current counter
# =================================================================================================
def c07_phases(ctx):
    quick = ctx["tier"] == "quick"
    groups = []
    for alg in ALGS:
        for w in (1, 2, 4, 8):
            groups.append(walk_group("c07/%s/w%d/h2" % (alg, w), alg, [(w, 2)], [0, 1, 2, 3], MSG_LENS[w:]))
        groups.append(walk_group("c07/%s/2lvl-a" % alg, alg, [(4, 2), (2, 2)], [0, 3, 4, 15], [32, 0, 300]))
        groups.append(walk_group("c07/%s/2lvl-b" % alg, alg, [(2, 2), (8, 2)], [5, 7, 8], [1, 64]))
        groups.append(walk_group("c07/%s/3lvl" % alg, alg, [(4, 2), (1, 2), (2, 2)], [0, 15, 16, 63], [24, 55]))
        groups.append(walk_group("c07/%s/h5w4" % alg, alg, [(4, 5)], [0, 17, 31], [16, 56]))
        groups.append(walk_group("c07/%s/h5h2" % alg, alg, [(2, 5), (4, 2)], [3, 4, 127], [31]))
        # every leaf of a NON-top tree of height 5 (authentication paths of every shape below the top level)
        if not quick or alg in ("sha256_n24", "shake256_n16"):
            groups.append(walk_group("c07/%s/h2h5-all-leaves" % alg, alg, [(4, 2), (2 if N_OF[alg] > 16 else 4, 5)], list(range(32, 64)), [5, 20]))
        if not quick:
            for w in (1, 2, 8):
                groups.append(walk_group("c07/%s/h5w%d" % (alg, w), alg, [(w, 5)], [0, 9, 30, 31], [16, 56, 300]))
            groups.append(walk_group("c07/%s/h5h5" % alg, alg, [(4, 5), (2, 5)], [0, 31, 32, 33, 1023], [8]))
            groups.append(walk_group("c07/%s/4lvl" % alg, alg, [(2, 2), (4, 2), (1, 2), (8, 2)], [0, 63, 64, 255], [5]))
            groups.append(walk_group("c07/%s/8lvl" % alg, alg, [(4, 2)] * 8, [0, (1 << 14) - 1, 1 << 14, (1 << 16) - 1], [40]))
            groups.append(walk_group("c07/%s/h2full" % alg, alg, [(4, 2), (4, 2)], list(range(16)), [12], chain=True))
    if not quick:
        for alg in ("sha256_n32", "shake256_n24"):
            groups.append(walk_group("c07/%s/h10w2" % alg, alg, [(2, 10)], [0, 513, 1023], [33]))
            groups.append(walk_group("c07/%s/h10h5" % alg, alg, [(4, 5), (2, 10)], [1023, 1024], [33]))
    return [{"tag": "c07", "groups": groups, "space": "6 hashes x parameter grid x counters x message lengths"}]


# =================================================================================================
# C08 - keys are derived and encoded as hash-sigs does
# =================================================================================================
def structured_seeds(alg):
    n = N_OF[alg]
    return [("zero", "00" * n), ("ones", "ff" * n), ("bit0", "80" + "00" * (n - 1)), ("bitlast", "00" * (n - 1) + "01")]


def c08_phases(ctx):
    quick = ctx["tier"] == "quick"
    groups = []
    lists = [[(1, 2)], [(2, 2)], [(4, 2)], [(8, 2)], [(4, 5)], [(2, 2), (4, 5)], [(4, 2), (1, 10), (2, 25)],
             [(8, 2), (8, 5), (8, 10), (8, 15), (8, 20), (8, 25), (1, 25), (2, 20)], [(2, 2)] * 8]
    if not quick:
        lists += [[(1, 5)], [(2, 5)], [(8, 5)], [(4, 5), (4, 5)], [(1, 2), (2, 15), (4, 20)], [(2, 10)], [(4, 10), (8, 5)]]
    for alg in ALGS:
        for li, params in enumerate(lists):
            if params[0][1] == 10 and alg not in ("sha256_n32", "shake256_n16"):
                continue
            seeds = [("rnd%d" % i, seed_hex("c08/%s/%d/%d" % (alg, li, i), alg)) for i in range(1 if quick else 3)]
            if li in (1, 2):
                seeds += structured_seeds(alg)
            cmds = []
            cost = 0.0
            for tag, sd in seeds:
                kg = cmd_keygen(alg, params, sd, out={"sk": "sk", "pk": "pk"})
                if li % 2 == 1:
                    # the Seed value is built from a 32-byte array whose bytes behind the seed are NOT zero:
                    # they must not select the key
                    kg["seed_tail"] = {"rand": 32, "tag": "c08/tail/%s/%d" % (alg, li)}
                    cmds.append(kg)
                    # ... and the key must be usable: sign with it and verify (affordable shapes only)
                    if all(h <= 5 for _, h in params):
                        cmds.append(cmd_sign(alg, slot("sk"), "7a11", out={"sig": "sig"}, light=True))
                        cmds.append(cmd_verify(alg, "7a11", slot("sig"), slot("pk")))
                    cost += tree_cost(alg, *params[0])
                    continue
                cmds.append(kg)
                cmds.append({"op": "hook", "hook": "root", "alg": alg, "key": slot("sk")})
                cost += tree_cost(alg, *params[0])
            groups.append({"name": "c08/%s/%d" % (alg, li), "cmds": cmds, "cost": cost})
        # tall lists: blob and identifier derivation only, through the accessor (no tree)
        cmds = []
        for li, params in enumerate([[(4, 15)], [(1, 20), (2, 25)], [(8, 25)] * 8, [(2, 15), (4, 10), (8, 5), (1, 20)]]):
            n = N_OF[alg]
            from vlib import HT, WT
            pb = bytes((HT[h] << 4) + WT[w] for w, h in params) + b"\xff" * (8 - len(params))
            blob = bytes(8) + pb + det_bytes("c08tall/%s/%d" % (alg, li), n)
            cmds.append({"op": "hook", "hook": "root", "alg": alg, "key": blob.hex()})
        groups.append({"name": "c08/%s/tall" % alg, "cmds": cmds, "cost": 0.1})
        # seed derivation below a tree for leaf numbers up to 2^25-1 (trees of height 10..25 are never built):
        # child seed / identifier, randomizer, chain start values - through the accessor
        cmds = []
        qs = [0, 1, 2, 31, 32, 255, 256, 257, 511, 1023, 1024, 65535, 65536, 65537, (1 << 20) - 1, 1 << 20, (1 << 24) - 1, 1 << 24,
              (1 << 24) + 1, (1 << 25) - 1, 0x00ff00ff, 0x01000000, 0x01fffffe]
        qs += [det_int("c08/q/%s/%d" % (alg, i), 1 << 25) for i in range(4 if quick else 40)]
        for qi, q in enumerate(qs):
            cmds.append({"op": "hook", "hook": "derive", "alg": alg, "seed": det_bytes("c08/ds/%s/%d" % (alg, qi % 3), N_OF[alg]).hex(),
                         "I": det_bytes("c08/dI/%s/%d" % (alg, qi % 5), 16).hex(), "q": "%08x" % q, "type": 1 + qi % 4})
        groups.append({"name": "c08/%s/derive" % alg, "cmds": cmds, "cost": 0.3})
    return [{"tag": "c08", "groups": groups, "space": "seeds x parameter lists (1..8 levels) x 6 hashes"}]


# =================================================================================================
# C01 - every released signature verifies (completeness), all entry points
# =================================================================================================
def c01_phases(ctx):
    quick = ctx["tier"] == "quick"
    groups = []
    for ai, alg in enumerate(ALGS):
        ws = [1, 2, 4, 8]
        w0 = ws[ai % 4]
        w1 = ws[(ai + 1) % 4]
        w2 = ws[(ai + 2) % 4]
        # complete lifetimes, real successor chain, roll-over of every subtree
        groups.append(walk_group("c01/%s/full-2x2" % alg, alg, [(w0, 2), (w1, 2)], list(range(16)), MSG_LENS, chain=True))
        groups.append(walk_group("c01/%s/full-2x2x2" % alg, alg, [(w1, 2), (w2, 2), (w0, 2)],
                                 list(range(64)) if not quick else list(range(20)), MSG_LENS, chain=True))
        groups.append(walk_group("c01/%s/h5-roll" % alg, alg, [(w2, 2), (4, 5)], [30, 31, 32, 33, 63, 64, 127], [4096, 0]))
        g = walk_group("c01/%s/seed-tail" % alg, alg, [(w1, 2), (w0, 2)], [0, 7, 15], [21])
        g["cmds"][0]["seed_tail"] = {"rand": 32, "tag": "c01/tail/%s" % alg}
        groups.append(g)
        # messages around and beyond 64 KiB (a 16-bit length somewhere in the hashing path would show here)
        groups.append(walk_group("c01/%s/bigmsg" % alg, alg, [(w2, 2)], [0, 1, 2, 3], [65535, 65536, 70000, 131071 if not quick else 65537]))
        groups.append(walk_group("c01/%s/8lvl" % alg, alg, [(4, 2), (2, 2)] * 4,
                                 [0, 3, 4, 255, 256, (1 << 16) - 1], [7]))
        if ai == 0:
            # eight levels of W1: the longest signatures RFC 8554 allows for this hash (69100 bytes)
            groups.append(walk_group("c01/%s/8lvl-w1" % alg, alg, [(1, 2)] * 8, [0, (1 << 16) - 1], [7]))
            groups.append(walk_group("c01/%s/7lvl-w1" % alg, alg, [(1, 2)] * 7, [0, (1 << 14) - 1], [7]))
        if not quick:
            groups.append(walk_group("c01/%s/h5" % alg, alg, [(w0, 5)], list(range(32)), MSG_LENS, chain=True))
            groups.append(walk_group("c01/%s/h5x5" % alg, alg, [(4, 5), (w1 if w1 != 8 else 2, 5)],
                                     [0, 1, 31, 32, 33, 511, 512, 991, 992, 1023], [55, 56]))
            groups.append(walk_group("c01/%s/5lvl" % alg, alg, [(w0, 2), (w1, 2), (w2, 2), (4, 2), (2, 2)],
                                     [0, 255, 256, 1023], [64]))
    # shapes whose trees TLC does not rebuild: verify-level judging ("light")
    tall = [("sha256_n32", [(4, 10)], [0, 1, 512, 1023]), ("shake256_n16", [(8, 5), (2, 10)], [1023, 1024, 32767]),
            # a parent leaf number >= 256 (child seed derivation with a two-byte leaf number)
            ("sha256_n24", [(4, 10), (4, 2)], [1023, 1024, 2047, 4095])]
    if not quick:
        tall += [("sha256_n24", [(2, 10), (4, 5)], [31, 32, 32767]), ("shake256_n32", [(4, 10), (4, 10)], [1023, 1024])]
    for alg, params, ctrs in tall:
        groups.append(walk_group("c01/%s/tall-%s" % (alg, "x".join(str(h) for _, h in params)), alg, params, ctrs, [100], light=True))
    # ONE SigningKey object signing on across bottom-tree roll-overs (taller tree on top, and below)
    for ai, alg in enumerate(ALGS if not quick else ALGS[::3]):
        groups.append(lifetime_walk("c01/mem/%s/h5h2" % alg, alg, [(4, 5), (2, 2)], ["accept"], api="mem", start=128 - 14))
        groups.append(lifetime_walk("c01/mem/%s/h2h5" % alg, alg, [(4, 2), (4, 5)], ["accept"], api="mem", start=128 - 36))
    # released signatures verify also when an aux buffer is involved, whatever happened to it before (scripted histories of HssAux)
    groups += aux_script_groups(ctx, "c01/auxhist", (4, 5, 7), False)
    return [{"tag": "c01", "groups": groups, "space": "complete lifetimes of H2 stacks, roll-over counters of H2/H5/H10 mixes, 1..8 levels"}]


# =================================================================================================
# C02 / C06 - verification accepts exactly what RFC 8554 accepts; verification is total
# =================================================================================================
def base_triples(quick):
    """(alg, params, counter) of the valid triples the mutations start from"""
    bases = []
    for ai, alg in enumerate(ALGS):
        ws = [1, 2, 4, 8]
        bases.append((alg, [(ws[ai % 4], 2)], 1))
        bases.append((alg, [(ws[(ai + 1) % 4], 2), (ws[(ai + 2) % 4], 2)], 6))
        if not quick or ai % 2 == 0:
            bases.append((alg, [(4, 2), (2, 5), (ws[(ai + 3) % 4], 2)], 77))
        if not quick:
            bases.append((alg, [(4, 5)], 9))
    return bases


HEADER_VALUES = ["00000000", "00000001", "00000002", "00000003", "00000004", "00000005", "00000006", "00000007",
                 "00000008", "00000009", "0000000a", "000000ff", "00000100", "00010000", "01000000", "7fffffff",
                 "80000000", "80000001", "ffffffff", "0000000e"]


def mutation_cmds(alg, params, lay, quick, tag):
    """verify commands for structure-aware mutations of the triple in slots msg/sig/pk (+ sig2/pk2/msg2 of
    another counter, osig/opk of another key)"""
    cmds = []
    n = N_OF[alg]

    def V(msg, sig, pk, cls, **kw):
        meta = {"class": cls}
        meta.update(kw)
        cmds.append(cmd_verify(alg, msg, sig, pk, meta=meta))

    M, S, P = slot("msg"), slot("sig"), slot("pk")
    V(M, S, P, "valid")
    # message alterations
    V({"mut": M, "kind": "flip_in", "off": 0, "len": 64, "tag": tag + "/m"}, S, P, "msg_flip")
    V({"mut": M, "kind": "extend", "with": "00"}, S, P, "msg_extend")
    V({"mut": M, "kind": "trunc", "len": 3}, S, P, "msg_trunc")
    # every field of the signature: one bit flipped (position chosen from VERIF_SEED), first and last byte
    for f in lay["sig_fields"]:
        V(M, {"mut": S, "kind": "flip_in", "off": f["off"], "len": f["len"], "tag": "%s/%s/%d" % (tag, f["name"], f["level"])}, P,
          "sig_flip", field=f["name"], level=f["level"])
        V(M, {"mut": S, "kind": "flip", "off": f["off"], "bit": 7}, P, "sig_flip_first", field=f["name"], level=f["level"])
        V(M, {"mut": S, "kind": "flip", "off": f["off"] + f["len"] - 1, "bit": 0}, P, "sig_flip_last", field=f["name"], level=f["level"])
        if f["len"] == 4:
            vals = HEADER_VALUES if not quick else HEADER_VALUES[::2] + ["0000000e"]
            for hv in vals:
                V(M, {"mut": S, "kind": "set", "off": f["off"], "with": hv}, P, "sig_header_set", field=f["name"], level=f["level"], value=hv)
        else:
            # splice the same field from the signature of another counter and of another key
            V(M, {"mut": S, "kind": "set", "off": f["off"], "with": {"slice": slot("sig2"), "off": f["off"], "len": f["len"]}}, P,
              "sig_splice_other_counter", field=f["name"], level=f["level"])
            V(M, {"mut": S, "kind": "set", "off": f["off"], "with": {"slice": slot("osig"), "off": f["off"], "len": f["len"]}}, P,
              "sig_splice_other_key", field=f["name"], level=f["level"])
    for f in lay["pk_fields"]:
        V(M, S, {"mut": P, "kind": "flip_in", "off": f["off"], "len": f["len"], "tag": "%s/pk/%s" % (tag, f["name"])},
          "pk_flip", field=f["name"])
        V(M, S, {"mut": P, "kind": "flip", "off": f["off"], "bit": 7}, "pk_flip_first", field=f["name"])
        V(M, S, {"mut": P, "kind": "flip", "off": f["off"] + f["len"] - 1, "bit": 0}, "pk_flip_last", field=f["name"])
        V(M, S, {"mut": P, "kind": "flip", "off": f["off"] + f["len"] // 2, "bit": 3}, "pk_flip_middle", field=f["name"])
        if f["len"] == 4:
            for hv in HEADER_VALUES[:12] + ["ffffffff"]:
                V(M, S, {"mut": P, "kind": "set", "off": f["off"], "with": hv}, "pk_header_set", field=f["name"], value=hv)
    # alterations that cancel in a FOLDED comparison (xor / sum over words, prefix or suffix only, permutation-insensitive):
    # the root must be compared for equality, byte by byte
    root = [f for f in lay["pk_fields"] if f["name"] == "pub_root"][0]
    ro, rl = root["off"], root["len"]

    def P2(muts, cls, **kw):
        e = P
        for m in muts:
            e = dict(m, mut=e)
        V(M, S, e, cls, **kw)
    for dist in (1, 2, 4, 8, 12, 16):
        for i in (0, 3, rl - dist - 1):
            if 0 <= i and i + dist < rl:
                P2([{"kind": "flip", "off": ro + i, "bit": 0}, {"kind": "flip", "off": ro + i + dist, "bit": 0}], "pk_root_two_equal_flips", dist=dist, at=i)
                P2([{"kind": "flip", "off": ro + i, "bit": 7}, {"kind": "flip", "off": ro + i + dist, "bit": 7}], "pk_root_two_equal_flips", dist=dist, at=i, bit=7)
    for i in range(0, rl, 8):
        pass
    V(M, S, {"xor": P, "off": ro, "len": rl, "byte": 255}, "pk_root_inverted")
    V(M, S, {"xor": P, "off": ro, "len": rl, "byte": 1}, "pk_root_every_byte_xor_1")
    V(M, S, {"xor": P, "off": ro, "len": rl // 2, "byte": 255}, "pk_root_first_half_inverted")
    V(M, S, {"xor": P, "off": ro + rl // 2, "len": rl - rl // 2, "byte": 255}, "pk_root_second_half_inverted")
    V(M, S, {"rotl": P, "off": ro, "len": rl, "by": 1}, "pk_root_rotated_one_byte")
    V(M, S, {"rotl": P, "off": ro, "len": rl, "by": 8}, "pk_root_rotated_eight_bytes")
    V(M, S, {"addsub": P, "off": ro, "dist": 8}, "pk_root_plus_one_minus_one", dist=8)
    V(M, S, {"addsub": P, "off": ro + 1, "dist": 4}, "pk_root_plus_one_minus_one", dist=4)
    # the same seed and parameters under the OTHER hash family of the same output length
    V(M, slot("xsig"), P, "sig_other_hash_family")
    V(M, slot("xsig"), slot("xpk"), "sig_and_pk_other_hash_family")
    V(M, S, slot("xpk"), "pk_other_hash_family")
    # whole-object substitutions
    V(M, slot("sig2"), P, "sig_other_counter_wrong_msg")
    V(slot("msg2"), slot("sig2"), P, "valid_other_counter")
    V(M, slot("osig"), P, "sig_other_key")
    V(M, S, slot("opk"), "pk_other_key")
    # truncation / extension
    sl, pl = lay["sig_len"], lay["pk_len"]
    for ln in sorted(set([0, 1, 3, 4, 5, 7, 8, 11, 12, 12 + n, sl - n, sl - 1] + [f["off"] for f in lay["sig_fields"]]
                         + [f["off"] + 1 for f in lay["sig_fields"]])):
        if 0 <= ln < sl:
            V(M, {"mut": S, "kind": "trunc", "len": ln}, P, "sig_trunc", len=ln)
    for ext in ("00", "ff", "00" * n, "00" * 4):
        V(M, {"mut": S, "kind": "extend", "with": ext}, P, "sig_extend", ext=len(ext) // 2)
    for ln in sorted(set([0, 1, 3, 4, 7, 8, 11, 12, 27, 28, pl - 1])):
        if ln < pl:
            V(M, S, {"mut": P, "kind": "trunc", "len": ln}, "pk_trunc", len=ln)
    for ext in ("00", "00" * n):
        V(M, S, {"mut": P, "kind": "extend", "with": ext}, "pk_extend", ext=len(ext) // 2)
    # chain truncation: drop the first signed public key, verify the rest under the embedded child key
    L = len(params)
    if L >= 2:
        f_q2 = [f for f in lay["sig_fields"] if f["name"] == "q" and f["level"] == 2][0]
        f_pub2 = [f for f in lay["sig_fields"] if f["name"] == "pub_lmstype" and f["level"] == 2][0]
        child_pk = {"cat": ["%08x" % (L - 1), {"slice": S, "off": f_pub2["off"], "len": 24 + n}]}
        cut_sig = {"cat": ["%08x" % (L - 2), {"slice": S, "off": f_q2["off"], "len": sl - f_q2["off"]}]}
        V(M, cut_sig, child_pk, "chain_cut_consistent")          # a valid (L-1)-level triple: must be ACCEPTED
        V(M, cut_sig, P, "chain_cut_wrong_root")
        V(M, {"mut": S, "kind": "set", "off": 0, "with": "%08x" % (L - 2)}, P, "nspk_minus_one")
        # chain "extension": the message replaced by the child public key, signature cut after level 1
        first_len = f_pub2["off"] - 4
        up_sig = {"cat": ["00000000", {"slice": S, "off": 4, "len": first_len}]}
        top_pk1 = {"mut": P, "kind": "set", "off": 0, "with": "00000001"}
        V({"slice": S, "off": f_pub2["off"], "len": 24 + n}, up_sig, top_pk1, "upper_sig_as_message_sig_L1")   # valid 1-level triple
        V({"slice": S, "off": f_pub2["off"], "len": 24 + n}, up_sig, P, "upper_sig_as_message_sig")
    V(M, {"mut": S, "kind": "set", "off": 0, "with": "%08x" % L}, P, "nspk_plus_one")
    return cmds


def totality_cmds(alg, params, lay, quick, tag):
    """C06: every prefix length, header sweeps, absurd level counts, random bytes"""
    cmds = []
    n = N_OF[alg]
    M, S, P = slot("msg"), slot("sig"), slot("pk")

    def V(msg, sig, pk, cls, **kw):
        meta = {"class": cls}
        meta.update(kw)
        cmds.append(cmd_verify(alg, msg, sig, pk, meta=meta))

    sl, pl = lay["sig_len"], lay["pk_len"]
    step = 1 if (not quick or sl < 3000) else 7
    for ln in list(range(0, min(sl, 80))) + list(range(80, sl, step)) + [sl - 1]:
        V(M, {"mut": S, "kind": "trunc", "len": ln}, P, "sig_prefix", len=ln)
    for ln in range(0, pl):
        V(M, S, {"mut": P, "kind": "trunc", "len": ln}, "pk_prefix", len=ln)
        cmds[-1]["pk_base"] = P          # also through a VerifyingKey object whose bytes field was shortened afterwards
    for ln in range(0, 71):
        V(M, {"rand": ln, "tag": "%s/rs/%d" % (tag, ln)}, P, "sig_random", len=ln)
        V(M, S, {"rand": ln, "tag": "%s/rp/%d" % (tag, ln)}, "pk_random", len=ln)
    # header fields: all small values and single-bit / all-ones patterns
    hdr = [f for f in lay["sig_fields"] if f["len"] == 4]
    vals = ["%08x" % v for v in list(range(0, 17)) + [255, 256, 257, 65535, 65536]] + \
           ["%08x" % (1 << b) for b in range(5, 32)] + ["ffffffff", "fffffffe", "7fffffff"]
    for f in hdr:
        for hv in (vals if not quick else vals[::2]):
            V(M, {"mut": S, "kind": "set", "off": f["off"], "with": hv}, P, "sig_header_sweep", field=f["name"], level=f["level"], value=hv)
    for f in [f for f in lay["pk_fields"] if f["len"] == 4]:
        for hv in (vals if not quick else vals[::2]):
            V(M, S, {"mut": P, "kind": "set", "off": f["off"], "with": hv}, "pk_header_sweep", field=f["name"], value=hv)
    # absurd level counts backed by parseable material: repeat the first signed public key
    if len(params) >= 2:
        f_pub2 = [f for f in lay["sig_fields"] if f["name"] == "pub_lmstype" and f["level"] == 2][0]
        spk_len = f_pub2["off"] + 24 + n - 4
        spk = {"slice": S, "off": 4, "len": spk_len}
        rest = {"slice": S, "off": 4, "len": sl - 4}
        for cnt in ([2, 7, 8, 9, 20] if quick else [1, 2, 3, 6, 7, 8, 9, 10, 16, 40]):
            if cnt * spk_len > 60000:
                continue
            V(M, {"cat": ["%08x" % (cnt + len(params) - 1)] + [spk] * cnt + [rest]}, P, "nspk_many_backed", count=cnt + len(params) - 1)
    # trailing data
    for ext in (1, 4, n, 1000):
        V(M, {"mut": S, "kind": "extend", "with": {"rand": ext, "tag": tag + "/trail"}}, P, "sig_trailing", ext=ext)
        V(M, S, {"mut": P, "kind": "extend", "with": {"rand": ext, "tag": tag + "/trailp"}}, "pk_trailing", ext=ext)
    # very long inputs (beyond any capacity)
    for ln in (65535, 65536, 70000, 200000):
        V(M, {"rep": ln, "byte": 0}, P, "sig_huge", len=ln)
        V(M, {"mut": S, "kind": "extend", "with": {"rep": ln, "byte": 0}}, P, "sig_huge_tail", len=ln)
    V(M, S, {"rep": 70000, "byte": 0}, "pk_huge", len=70000)
    V({"rep": 100000, "byte": 7}, S, P, "msg_huge")
    return cmds


def mutation_groups(ctx, which):
    quick = ctx["tier"] == "quick"
    bases = base_triples(quick)
    lay = layouts([(a, p) for a, p, _ in bases], ctx["workdir"])
    groups = []
    for bi, (alg, params, ctr) in enumerate(bases):
        name = "%s/%s/%s" % (which, alg, "x".join("w%dh%d" % p for p in params))
        cmds = [cmd_keygen(alg, params, seed_hex(name, alg)),
                cmd_keygen(alg, params, seed_hex(name + "/other", alg), out={"sk": "osk", "pk": "opk"}),
                {"op": "set", "slot": "msg", "value": msg_hex(name, 40)},
                {"op": "set", "slot": "msg2", "value": msg_hex(name + "/2", 40)},
                cmd_sign(alg, key_at("sk", ctr), slot("msg"), out={"sig": "sig"}, light=True),
                cmd_sign(alg, key_at("sk", (ctr + 5) % lifetime_of(params)), slot("msg2"), out={"sig": "sig2"}, light=True),
                cmd_sign(alg, key_at("osk", ctr), slot("msg"), out={"sig": "osig"}, light=True)]
        xalg = ("shake256_n%d" if alg.startswith("sha256") else "sha256_n%d") % N_OF[alg]
        cmds += [cmd_keygen(xalg, params, seed_hex(name, alg), out={"sk": "xsk", "pk": "xpk"}),
                 cmd_sign(xalg, key_at("xsk", ctr), slot("msg"), out={"sig": "xsig"}, light=True)]
        L = layout_of(lay, alg, params)
        if which == "c02":
            cmds += mutation_cmds(alg, params, L, quick, name)
        else:
            cmds += totality_cmds(alg, params, L, quick, name)
        nver = sum(1 for c in cmds if c["op"] == "verify")
        groups.append({"name": name, "cmds": cmds, "cost": 0.5 + nver * sign_cost(alg, params) * 0.6})
    return groups


# ---- recombinations enumerated from the symbolic model HssSym.tla (GenSym.tla) -------------------
def gen_sym(ctx, cfg, sample):
    outp = os.path.join(ctx["workdir"], "sym_%s.ndjson" % cfg.replace(".cfg", ""))
    rc, out, st = run_tlc("GenSym", cfg, os.path.join(ctx["workdir"], "meta-" + cfg), env={"GEN_OUT": outp, "GEN_SAMPLE": str(sample)},
                          timeout=1500, xmx="8g")
    if rc != 0 or not os.path.exists(outp):
        raise ToolError("GenSym failed: " + out[-1500:])
    return [json.loads(x) for x in open(outp)]


SYM_CFGS = {"GenSym.cfg": {"keys": ["A", "B"], "ctrs": [1, 2, 6], "levels": 2}, "GenSym_3.cfg": {"keys": ["A"], "ctrs": [1, 6, 22], "levels": 3}}


def sym_groups(ctx):
    quick = ctx["tier"] == "quick"
    groups = []
    stats = {}
    for ci, (cfg, u) in enumerate(SYM_CFGS.items()):
        terms = gen_sym(ctx, cfg, 400 if quick else 6000)
        stats[cfg] = {"recombinations": len(terms), "accepted_by_model": sum(1 for t in terms if t["accept"])}
        # the same recombinations on the bytes of two hash / Winternitz choices
        for vi, (alg, w) in enumerate([("sha256_n16", 8), ("shake256_n24", 4)] if quick else [("sha256_n16", 8), ("shake256_n24", 4), ("sha256_n32", 2), ("shake256_n16", 1)]):
            if quick and (ci + vi) % 2:
                continue
            n = N_OF[alg]
            L = u["levels"]
            params = [(w, 2)] * L
            nu = 8 * n // w
            nv = -(-((nu * ((1 << w) - 1)).bit_length()) // w)        # ceil((floor(log2(u(2^w-1))) + 1) / w), RFC 8554 Appendix B
            p = nu + nv
            S = 12 + n + n * p + 2 * n
            Pb = 24 + n
            name = "c02/sym/%s/%s/w%d" % (cfg.replace(".cfg", ""), alg, w)
            pre = []
            for k in u["keys"]:
                pre.append(cmd_keygen(alg, params, seed_hex("%s/%s" % (name, k), alg), out={"sk": "sk_" + k, "pk": "pk_" + k}))
                for c in u["ctrs"]:
                    pre.append({"op": "set", "slot": "m_%s_%d" % (k, c), "value": msg_hex("%s/%s/%d" % (name, k, c), 16)})
                    pre.append(cmd_sign(alg, key_at("sk_" + k, c), slot("m_%s_%d" % (k, c)), out={"sig": "sig_%s_%d" % (k, c)}, light=True))

            def sigc(x):
                return {"slice": slot("sig_%s_%d" % (x["k"], x["c"])), "off": 4 + (x["i"] - 1) * (S + Pb), "len": S}

            def treec(x):
                if x["i"] == 1:
                    return {"slice": slot("pk_" + x["k"]), "off": 4, "len": Pb}
                return {"slice": slot("sig_%s_%d" % (x["k"], x["c"])), "off": 4 + (x["i"] - 2) * (S + Pb) + S, "len": Pb}

            # accepted recombinations first: the VerifyingKey objects the harness keeps across calls have then verified
            # genuine signatures before they see the near misses
            terms = sorted(terms, key=lambda t: not t["accept"])
            chunk = 120
            for start in range(0, len(terms), chunk):
                cmds = list(pre)
                primed = [t for t in terms if t["accept"]] if start > 0 else []
                for t in primed + terms[start:start + chunk]:
                    parts = ["%08x" % t["nspk"]]
                    for sp in t["spks"]:
                        parts += [sigc(sp["sig"]), treec(sp["pub"])]
                    parts.append(sigc(t["last"]))
                    msg = slot("m_%s_%d" % (t["msg"]["k"], t["msg"]["c"])) if t["msg"]["kind"] == "m" else treec(t["msg"])
                    pk = {"cat": ["%08x" % t["pk"]["L"], treec(t["pk"])]}
                    cmds.append(cmd_verify(alg, msg, {"cat": parts}, pk, meta={"class": "sym", "sym_accept": t["accept"], "nspk": t["nspk"]}))
                groups.append({"name": "%s/%d" % (name, start), "cmds": cmds,
                               "cost": 1 + len(cmds) * 0.004 * p * ((1 << w) - 1) / 100})
    ctx["sym_stats"] = stats
    return groups


def sym_design(ctx):
    runs = [{"module": "HssSym", "cfg": "MC_Sym_2.cfg", "workers": 8, "xmx": "8g"},
            {"module": "HssSym", "cfg": "MC_Sym_neg_level.cfg", "workers": 2, "expect": "Invariant AcceptsExactlySegments is violated"},
            {"module": "HssSym", "cfg": "MC_Sym_neg_content.cfg", "workers": 2, "expect": "Invariant AcceptsExactlySegments is violated"},
            {"module": "HssSym", "cfg": "MC_Sym_neg_tree.cfg", "workers": 2, "expect": "Invariant AcceptsExactlySegments is violated"}]
    if ctx["tier"] != "quick":
        runs.append({"module": "HssSym", "cfg": "MC_Sym_3.cfg", "workers": 16, "xmx": "16g", "timeout": 3000})
    return runs


def relabel_groups(ctx):
    """ALL type codes of a valid triple rewritten consistently (signature and public key) to code points RFC 8554 does not
    define (e.g. the SP 800-208 registrations for other hashes): RFC 8554 verification rejects them"""
    groups = []
    for alg in (ALGS if ctx["tier"] != "quick" else ("sha256_n24", "shake256_n32", "shake256_n16")):
        n = N_OF[alg]
        for w in ((8, 2) if ctx["tier"] == "quick" else (8, 4, 2, 1)):
            name = "c02/relabel/%s/w%d" % (alg, w)
            nu = 8 * n // w
            p = nu + -(-((nu * ((1 << w) - 1)).bit_length()) // w)
            cmds = [cmd_keygen(alg, [(w, 5)], seed_hex(name, alg)),
                    cmd_sign(alg, key_at("sk", 9), "7e1abe10", out={"sig": "sig"}, light=True),
                    cmd_verify(alg, "7e1abe10", slot("sig"), slot("pk"), meta={"class": "valid"})]
            ots_t = {1: 1, 2: 2, 4: 3, 8: 4}[w]
            sig_ots, sig_lms = 8, 4 + 4 + 4 + n + n * p          # offsets of the two type codes in a one-level signature
            for dots in (0, 4, 8, 12, 16):
                for dlms in (0, 5, 10, 15, 20):
                    if dots == 0 and dlms == 0:
                        continue
                    S = {"mut": {"mut": slot("sig"), "kind": "set", "off": sig_ots, "with": "%08x" % (ots_t + dots)}, "kind": "set", "off": sig_lms, "with": "%08x" % (5 + dlms)}
                    P = {"mut": {"mut": slot("pk"), "kind": "set", "off": 4, "with": "%08x" % (5 + dlms)}, "kind": "set", "off": 8, "with": "%08x" % (ots_t + dots)}
                    cmds.append(cmd_verify(alg, "7e1abe10", S, P, meta={"class": "type_codes_relabelled_consistently", "dots": dots, "dlms": dlms}))
            groups.append({"name": name, "cmds": cmds, "cost": 1.5})
    return groups


def back_groups(ctx):
    """triples whose public key was built (by GenBack.tla) for a RELAXED reading of the leaf-number range check of
    Algorithm 6a; RFC 8554 rejects them, a verifier with that reading accepts them"""
    groups = []
    for alg in (ALGS if ctx["tier"] != "quick" else ("sha256_n16", "shake256_n24")):
        outp = os.path.join(ctx["workdir"], "genback_%s.ndjson" % alg)
        rc, out, st = run_tlc("GenBack", "GenBack.cfg", os.path.join(ctx["workdir"], "meta-genback-" + alg), env={"GEN_ALG": alg, "GEN_OUT": outp}, timeout=900, xmx="4g")
        if rc != 0 or "Error" in out or not os.path.exists(outp):
            raise ToolError("GenBack failed: " + out[-1500:])
        cmds = []
        for line in open(outp):
            t = json.loads(line)
            cmds.append(cmd_verify(alg, t["msg"], t["sig"], t["pk"], meta={"class": "adversarial_key_for_relaxed_leaf_range_check", "reading": t["reading"], "q": t["q"]}))
        groups.append({"name": "c02/back/%s" % alg, "cmds": cmds, "cost": 1.0})
    return groups


def c02_phases(ctx):
    groups = mutation_groups(ctx, "c02")
    groups += relabel_groups(ctx)
    groups += back_groups(ctx)
    groups += sym_groups(ctx)
    if ctx["tier"] != "quick":
        groups += every_byte_groups(ctx)
    return [{"tag": "c02", "groups": groups,
             "space": "valid triples x {every field of SigLayout/PubLayout} x {bit flip, header value classes, splices, truncation, extension, chain cut/extension}"}]


def every_byte_groups(ctx):
    """thorough: one bit flipped in EVERY byte of a complete small signature and public key"""
    groups = []
    for alg, params in (("sha256_n32", [(8, 2)]), ("shake256_n16", [(4, 2), (8, 2)]), ("sha256_n24", [(8, 2)])):
        lay = layouts([(alg, params)], ctx["workdir"])
        L = layout_of(lay, alg, params)
        name = "c02/everybyte/%s/%d" % (alg, len(params))
        pre = [cmd_keygen(alg, params, seed_hex(name, alg)),
               {"op": "set", "slot": "msg", "value": msg_hex(name, 20)},
               cmd_sign(alg, key_at("sk", 2), slot("msg"), out={"sig": "sig"}, light=True)]
        chunk = 400
        for start in range(0, L["sig_len"], chunk):
            cmds = list(pre)
            for off in range(start, min(L["sig_len"], start + chunk)):
                cmds.append(cmd_verify(alg, slot("msg"), {"mut": slot("sig"), "kind": "flip", "off": off, "bit": det_int("%s/%d" % (name, off), 8)},
                                       slot("pk"), meta={"class": "sig_every_byte", "off": off}))
            groups.append({"name": "%s/%d" % (name, start), "cmds": cmds, "cost": 0.5 + chunk * sign_cost(alg, params) * 0.6})
        cmds = list(pre)
        for off in range(L["pk_len"]):
            cmds.append(cmd_verify(alg, slot("msg"), slot("sig"), {"mut": slot("pk"), "kind": "flip", "off": off, "bit": det_int("%s/pk/%d" % (name, off), 8)},
                                   meta={"class": "pk_every_byte", "off": off}))
        groups.append({"name": name + "/pk", "cmds": cmds, "cost": 0.5 + L["pk_len"] * sign_cost(alg, params) * 0.6})
    return groups


def c06_phases(ctx):
    groups = mutation_groups(ctx, "c06")
    return [{"tag": "c06", "groups": groups,
             "space": "every prefix length of valid signatures/public keys, header sweeps, absurd level counts, random and huge inputs"}]


REGISTRY = {
    "C01": {"phases": c01_phases, "neg_cfgs": ["TraceBytes_negDLEAF.cfg"]},
    "C02": {"phases": c02_phases, "neg_cfgs": ["TraceBytes_negNoLen.cfg"]},
    "C06": {"phases": c06_phases},
    "C07": {"phases": c07_phases, "neg_cfgs": ["TraceBytes_negDMESG.cfg"]},
    "C08": {"phases": c08_phases, "neg_cfgs": ["TraceBytes_negTOPSEED.cfg"]},
}


# =================================================================================================
# Protocol layer: C03 C04 C05 C09 C11 share the HssApi model, its walks and TraceApi
# =================================================================================================
import os
import vlib
from vlib import ToolError, run_tlc, tlc_printed, seed_int

API_POSITIVE = [("MC_Api_1.cfg", 8), ("MC_Api_2.cfg", 8), ("MC_Api_11.cfg", 8), ("MC_Api_12.cfg", 8), ("MC_Api_21.cfg", 8),
                ("MC_Api_111.cfg", 8)]
API_POSITIVE_THOROUGH = [("MC_Api_22.cfg", 12), ("MC_Api_2keys.cfg", 12), ("MC_Api_212.cfg", 14)]
API_NEGATIVE = [("MC_Api_neg_stale.cfg", "Invariant NoReuse is violated"),
                ("MC_Api_neg_early.cfg", "Action property SigReturnedOnlyViaOk is violated"),
                ("MC_Api_neg_noadvance.cfg", "Invariant NoReuse is violated")]


def inductive_design():
    """Apalache: inductive invariant of the counter protocol for EVERY lifetime T (spec/apalache/CounterInd.tla)"""
    A = "CounterIndApa"
    return [{"module": "apalache/CounterInd", "cfg": "apalache/CounterInd.cfg", "workers": 2, "xmx": "2g"},       # TLC on the same module, T = 6
            {"engine": "apalache", "module": A, "args": ["--cinit=ConstInit", "--init=Init", "--inv=IndInv", "--length=0"]},
            {"engine": "apalache", "module": A, "args": ["--cinit=ConstInit", "--init=IndInit", "--inv=IndInv", "--length=1"]},
            {"engine": "apalache", "module": A, "args": ["--cinit=ConstInit", "--init=IndInit", "--inv=Safety", "--length=0"]},
            {"engine": "apalache", "module": A, "args": ["--cinit=ConstInitEarly", "--init=IndInit", "--inv=IndInv", "--length=1"], "expect": "Error"}]


def api_design(ctx, negatives=None):
    runs = [{"module": "MC_Api", "cfg": c, "workers": w, "xmx": "12g"} for c, w in API_POSITIVE]
    if ctx["tier"] != "quick":
        runs += [{"module": "MC_Api", "cfg": c, "workers": w, "xmx": "16g", "timeout": 2400} for c, w in API_POSITIVE_THOROUGH]
    for c, exp in API_NEGATIVE:
        if negatives is None or c in negatives:
            runs.append({"module": "MC_Api", "cfg": c, "workers": 4, "expect": exp})
    return runs


SHAPE_OF_CFG = {"GenWalks_2.cfg": [2], "GenWalks_22.cfg": [2, 2], "GenWalks_2keys.cfg": [2], "GenWalks_25.cfg": [2, 5], "GenWalks_52.cfg": [5, 2]}


def gen_walks(ctx, cfg, num, depth=600):
    """behaviours of the HssApi model, produced by TLC in simulation mode (seeded by VERIF_SEED)"""
    rc, out, st = run_tlc("GenWalks", cfg, os.path.join(ctx["workdir"], "meta-" + cfg), workers=1, xmx="4g", timeout=900,
                          extra=["-simulate", "num=%d" % num, "-depth", str(depth), "-seed", str(seed_int() + 17)])
    walks = tlc_printed(out, "WALK")
    uniq = []
    seen = set()
    for w in walks:
        key = json.dumps(w)
        if key not in seen:
            seen.add(key)
            uniq.append(w)
    if not uniq:
        raise ToolError("GenWalks produced no walk: " + out[-1500:])
    return uniq[:num], st


def concretise_walk(name, walk, heights, wi, aux_mode="none"):
    """abstract external actions -> harness commands (no expected values)"""
    algs = {}
    cmds = []
    total = 1 << sum(heights)
    ws = [1, 2, 4, 8]

    def alg_of(k):
        if k not in algs:
            algs[k] = ALGS[(wi + len(algs) * 2) % 6]
        return algs[k]

    def params_of(k):
        ps = [(ws[(wi + i + (0 if k == "k1" else 1)) % 4], h) for i, h in enumerate(heights)]
        return [(4 if (h == 5 and w == 8) else w, h) for w, h in ps]      # an H5/W8 tree costs TLC ~7 s

    msgs = {"m1": msg_hex(name + "/m1", 13), "m2": msg_hex(name + "/m2", 40)}
    n_sign = 0
    for ai, a in enumerate(walk):
        k = a.get("k")
        if a["a"] == "keygen":
            alg = alg_of(k)
            kg = cmd_keygen(alg, params_of(k), seed_hex("%s/%s" % (name, k), alg), out={"sk": "store_" + k, "pk": "pk_" + k})
            if aux_mode != "none":
                kg["aux"] = {"rep": 600, "byte": 0}
                kg["out"]["aux"] = "aux_" + k
            kg["k"] = k
            start = a.get("start", 0)
            if start:
                kg["start_ctr"] = "%016x" % start
            cmds.append(kg)
            if start:
                cmds.append({"op": "set", "slot": "store_" + k, "value": key_at("store_" + k, start)})
            cmds.append({"op": "load", "alg": alg, "mem": "mem_" + k, "key": slot("store_" + k), "k": k})
        elif a["a"] == "sign":
            alg = alg_of(k)
            c = cmd_sign(alg, slot("store_" + k), msgs[a["m"]], plan=a["plan"],
                         api="bytes" if a["api"] == "bytes" else ("mem_aux" if aux_mode != "none" else "mem"),
                         mem="mem_" + k, out={"sig": "sig", "next": "store_" + k} if a["api"] == "bytes" else {"sig": "sig"})
            if aux_mode == "valid":
                c["aux"] = slot("aux_" + k)
            elif aux_mode == "fresh":
                c["aux"] = {"rep": 300, "byte": 0}
            elif aux_mode == "garbage":
                c["aux"] = {"cat": ["00" if n_sign % 2 else "a5", {"rand": 299, "tag": "%s/aux/%d" % (name, ai)}]}
            c["k"] = k
            cmds.append({"op": "set", "slot": "sig", "value": ""})
            cmds.append(c)
            cmds.append(cmd_verify(alg, msgs[a["m"]], slot("sig"), slot("pk_" + k)))
            n_sign += 1
        elif a["a"] == "sign_bad":
            alg = alg_of(k)
            n = N_OF[alg]
            if a["tag"] == "wiped":
                key = "00" * 8 + "ff" * 8 + "00" * n
            elif a["tag"] == "live":
                key = key_at("store_" + k, total + a["over"])
            else:
                kind = det_int("%s/bad/%d" % (name, ai), 6)
                if kind == 5 and n == 32:
                    # a list key generation refuses (signatures longer than 65535 bytes): 8 x (LmsH2, W1)
                    key = {"mut": slot("store_" + k), "kind": "set", "off": 8, "with": "11" * 8}
                elif kind == 5:
                    key = {"mut": slot("store_" + k), "kind": "set", "off": 8, "with": "f0"}
                elif kind == 0:
                    key = {"mut": slot("store_" + k), "kind": "set", "off": 8, "with": "0%x" % det_int("%s/b/%d" % (name, ai), 16)}
                elif kind == 1:
                    key = {"mut": slot("store_" + k), "kind": "trunc", "len": det_int("%s/t/%d" % (name, ai), 16 + n)}
                elif kind == 2:
                    key = {"mut": slot("store_" + k), "kind": "extend", "with": "00"}
                elif kind == 3:
                    key = {"mut": slot("store_" + k), "kind": "set", "off": 8 + len(heights) - 1, "with": "%02x" % (0xa0 + det_int("%s/c/%d" % (name, ai), 0x50))}
                else:
                    key = {"mut": slot("store_" + k), "kind": "set", "off": 8, "with": "ff"}
            c = cmd_sign(alg, key, msgs[a["m"]], plan=a["plan"], out={"sig": "sig"})
            c["k"] = k
            c["bad"] = True
            cmds.append(c)
        elif a["a"] == "reload":
            cmds.append({"op": "load", "alg": alg_of(k), "mem": "mem_" + k, "key": slot("store_" + k), "k": k})
        elif a["a"] == "persist":
            cmds.append({"op": "persist", "alg": alg_of(k), "mem": "mem_" + k, "out": {"key": "store_" + k}, "k": k})
        elif a["a"] == "crash":
            cmds.append({"op": "crash"})
        elif a["a"] == "lifetime":
            c = cmd_lifetime(alg_of(k), key=slot("store_" + k)) if a["api"] == "bytes" else cmd_lifetime(alg_of(k), mem="mem_" + k)
            c["k"] = k
            cmds.append(c)
    cost = 0.3 + 0.08 * len(cmds)
    return {"name": name, "cmds": cmds, "cost": cost, "walk": walk}


def api_walk_groups(ctx, plan):
    """plan: list of (cfg, number of walks, aux modes)"""
    groups = []
    stats = {}
    labels = set()
    for cfg, num, aux_modes in plan:
        walks, st = gen_walks(ctx, cfg, num)
        stats[cfg] = {"walks": len(walks), "sim_states": st["states"]}
        for wi, w in enumerate(walks):
            mode = aux_modes[wi % len(aux_modes)]
            groups.append(concretise_walk("walk/%s/%d" % (cfg.replace(".cfg", ""), wi), w, SHAPE_OF_CFG[cfg], wi, mode))
            for a in w:
                labels.add((a["a"], a.get("api"), a.get("plan"), a.get("tag")))
    ctx["walk_stats"] = stats
    ctx["walk_labels"] = len(labels)
    return groups


def lifetime_walk(name, alg, params, plans_cycle, api="bytes", start=0, seed=None):
    """complete lifetime with a lifetime query before and after every step, callback plans mixed in, and
    attempts after exhaustion"""
    k = "k1"
    cmds = []
    kg = cmd_keygen(alg, params, seed or seed_hex(name, alg), out={"sk": "store_k1", "pk": "pk_k1"})
    kg["k"] = k
    if start:
        kg["start_ctr"] = "%016x" % start
    cmds.append(kg)
    if start:
        cmds.append({"op": "set", "slot": "store_k1", "value": key_at("store_k1", start)})
    cmds.append({"op": "load", "alg": alg, "mem": "mem_k1", "key": slot("store_k1"), "k": k})
    total = lifetime_of(params) - start
    done = 0
    i = 0
    while done < total and i < 4 * total + 8:
        plan = plans_cycle[i % len(plans_cycle)]
        lt = cmd_lifetime(alg, key=slot("store_k1")) if api == "bytes" else cmd_lifetime(alg, mem="mem_k1")
        lt["k"] = k
        cmds.append(lt)
        m = msg_hex("%s/%d" % (name, i), 9)
        c = cmd_sign(alg, slot("store_k1"), m, plan=plan if api == "bytes" else "accept", api=api, mem="mem_k1",
                     out={"sig": "sig", "next": "store_k1"} if api == "bytes" else {"sig": "sig"})
        c["k"] = k
        cmds.append({"op": "set", "slot": "sig", "value": ""})
        cmds.append(c)
        cmds.append(cmd_verify(alg, m, slot("sig"), slot("pk_k1")))
        if api == "bytes" and plan in ("crash_before", "crash_after"):
            pass
        if api != "bytes" or plan in ("accept", "crash_after"):
            done += 1
        i += 1
    # exhausted: everything must now be refused without a callback
    for j in range(3):
        lt = cmd_lifetime(alg, key=slot("store_k1")) if api == "bytes" else cmd_lifetime(alg, mem="mem_k1")
        lt["k"] = k
        cmds.append(lt)
        c = cmd_sign(alg, slot("store_k1"), msg_hex("%s/x/%d" % (name, j), 5), plan=["accept", "reject", "accept"][j] if api == "bytes" else "accept", api=api,
                     mem="mem_k1", out={"sig": "sig"})
        c["k"] = k
        cmds.append(c)
    return {"name": name, "cmds": cmds, "cost": 0.3 + 0.1 * len(cmds)}


def api_phases(ctx, emphasis):
    quick = ctx["tier"] == "quick"
    nw = 10 if quick else 40
    plan = [("GenWalks_2.cfg", nw, ["none", "valid", "fresh", "garbage"]),
            ("GenWalks_22.cfg", nw, ["none", "fresh", "valid"]),
            ("GenWalks_2keys.cfg", nw // 2, ["none"]),
            # mixed per-level heights, the last ten one-time keys of a 2^7 lifetime (roll-overs, exhaustion)
            ("GenWalks_25.cfg", 3 if quick else nw // 2, ["none", "valid"]),
            ("GenWalks_52.cfg", 3 if quick else nw // 2, ["none", "fresh"])]
    groups = api_walk_groups(ctx, plan)
    # deterministic systematic walks: complete lifetimes under every callback plan
    cyc = [["accept"], ["reject", "accept"], ["crash_before", "accept", "reject", "crash_after"], ["crash_after"]]
    for ai, alg in enumerate(ALGS if not quick else ALGS[::2]):
        ws = [1, 2, 4, 8]
        groups.append(lifetime_walk("life/%s/h2" % alg, alg, [(ws[ai % 4], 2)], cyc[ai % 4]))
        groups.append(lifetime_walk("life/%s/h2x2" % alg, alg, [(ws[(ai + 1) % 4], 2), (ws[(ai + 2) % 4], 2)], cyc[(ai + 1) % 4]))
        groups.append(lifetime_walk("life/%s/h2-mem" % alg, alg, [(ws[(ai + 3) % 4], 2)], ["accept"], api="mem"))
        # MIXED per-level heights: the last leaves of a 2^7 lifetime (crossing subtree roll-overs both ways)
        groups.append(lifetime_walk("life/%s/h2h5-end" % alg, alg, [(ws[(ai + 2) % 4], 2), (4, 5)], cyc[ai % 4], start=128 - 20))
        groups.append(lifetime_walk("life/%s/h5h2-end" % alg, alg, [(4, 5), (ws[(ai + 1) % 4], 2)], cyc[(ai + 2) % 4], start=128 - 10,
                                    api="mem" if ai % 2 else "bytes"))
        if not quick or ai == 1:
            # a seed that happens to be all zero (the wiped key is recognised by its cleared parameter list, not by its seed)
            groups.append(lifetime_walk("life/%s/zero-seed" % alg, alg, [(4, 2)], cyc[ai % 4], seed="00" * N_OF[alg], api="bytes" if ai % 2 else "mem"))
        if not quick or ai == 2:
            # the maximum level count (eight H2 trees): the last three one-time keys of a 2^16 lifetime
            groups.append(lifetime_walk("life/%s/8xh2-end" % alg, alg, [(4, 2), (2, 2)] * 4, cyc[(ai + 3) % 4], start=(1 << 16) - 3))
        if not quick or ai == 0:
            # a total height of 35 (seven H5 levels): the last three one-time keys of a 2^35 lifetime, then refusal
            groups.append(lifetime_walk("life/%s/7xh5-end" % alg, alg, [(2, 5)] * 7, cyc[(ai + 1) % 4], start=(1 << 35) - 3))
        if not quick:
            groups.append(lifetime_walk("life/%s/h2x2x2" % alg, alg, [(4, 2), (ws[ai % 4], 2), (2, 2)], cyc[(ai + 2) % 4]))
            groups.append(lifetime_walk("life/%s/h5" % alg, alg, [(4, 5)], cyc[(ai + 3) % 4]))
    return [{"tag": emphasis, "groups": groups, "trace_module": "TraceApi", "trace_cfg": "TraceApi.cfg", "tlc_timeout": 2400 if quick else 9000,
             "space": "behaviours of HssApi (TLC simulation, seed VERIF_SEED) + complete lifetimes under every callback plan"}]


def api_cov(ctx, cov):
    return {"walk_generation": ctx.get("walk_stats"), "distinct_external_action_labels_in_walks": ctx.get("walk_labels")}


for _p, _neg in (("C03", ["MC_Api_neg_stale.cfg", "MC_Api_neg_noadvance.cfg"]), ("C04", ["MC_Api_neg_early.cfg"]),
                 ("C05", ["MC_Api_neg_noadvance.cfg"]), ("C09", [])):
    REGISTRY[_p] = {"design": (lambda neg, ind: (lambda ctx: api_design(ctx, neg) + (inductive_design() if ind else [])))(_neg, _p in ("C03", "C04")),
                    "phases": (lambda p: (lambda ctx: api_phases(ctx, p.lower())))(_p),
                    "coverage_extra": api_cov, "neg_cfgs": ["TraceApi_negSucc.cfg"]}


# =================================================================================================
# C11 - keygen / sign / lifetime reject malformed inputs instead of crashing
# =================================================================================================
def c11_phases(ctx):
    quick = ctx["tier"] == "quick"
    groups = []
    from vlib import HT, WT
    for ai, alg in enumerate(ALGS):
        n = N_OF[alg]
        # (a) parameter lists of length 0..10
        cmds = []
        for ln in range(0, 11):
            cmds.append(cmd_keygen(alg, [(4, 2)] * ln, seed_hex("c11/a/%s" % alg, alg), out={"sk": "x", "pk": "y"}, meta={"class": "param_list_len", "len": ln}))
        groups.append({"name": "c11/%s/listlen" % alg, "cmds": cmds, "cost": 2.0})
        # (b) key blob lengths 0..64, through every entry point
        base = [(2, 2)] if ai % 2 == 0 else [(4, 2), (2, 2)]
        cmds = [cmd_keygen(alg, base, seed_hex("c11/b/%s" % alg, alg))]
        for ln in range(0, 65):
            blob = {"cat": [{"slice": slot("sk"), "off": 0, "len": min(ln, 16 + n)}, {"rand": max(0, ln - 16 - n), "tag": "c11/pad/%d" % ln}]}
            meta = {"class": "key_len", "len": ln}
            cmds.append(cmd_sign(alg, blob, "aabb", meta=meta, plan="accept" if ln % 2 else "reject"))
            cmds.append(cmd_lifetime(alg, key=blob, meta=meta))
            if ln <= 48:
                cmds.append({"op": "load", "alg": alg, "mem": "m", "key": blob, "meta": meta})
                cmds.append(cmd_sign(alg, None, "aabb", api="mem_aux" if ln % 3 == 0 else "mem", mem="m", meta=meta))
                cmds.append(cmd_lifetime(alg, mem="m", meta=meta))
        groups.append({"name": "c11/%s/keylen" % alg, "cmds": cmds, "cost": 4.0})
        # (c) all 256 values of each of the 8 parameter bytes
        for pos in range(8):
            if quick and (pos + ai) % 3 != 0 and pos > 1:
                continue
            cmds = [cmd_keygen(alg, base, seed_hex("c11/c/%s" % alg, alg))]
            cost = 1.0
            for val in range(256):
                lms_t, ots_t = val >> 4, val & 15
                if val != 0xff and lms_t in (7, 8, 9) and ots_t in (1, 2, 3, 4):
                    continue   # H15..H25: enumerated, not executed (stated bound)
                if lms_t == 6 and ots_t in (1, 2, 3, 4) and (quick or N_OF[alg] != 16 or ots_t == 4):
                    continue   # H10 only for the cheapest hash/w combinations, thorough tier
                key = {"mut": slot("sk"), "kind": "set", "off": 8 + pos, "with": "%02x" % val}
                meta = {"class": "param_byte", "pos": pos, "value": val}
                cmds.append(cmd_sign(alg, key, "00", meta=meta, light=True, plan="accept"))
                cmds.append(cmd_lifetime(alg, key=key, meta=meta))
                cost += 0.05
            groups.append({"name": "c11/%s/parambyte%d" % (alg, pos), "cmds": cmds, "cost": cost})
        # (d) counters at and beyond the end, wiped and exhausted keys
        cmds = [cmd_keygen(alg, base, seed_hex("c11/d/%s" % alg, alg))]
        total = lifetime_of(base)
        for ctr in [total - 1, total, total + 1, 2 * total, 2 * total - 1, (1 << 32), (1 << 63), (1 << 64) - 1, (1 << 64) - total]:
            meta = {"class": "counter", "ctr": "%016x" % ctr}
            for plan in ("accept", "reject"):
                cmds.append(cmd_sign(alg, key_at("sk", ctr), "0102", meta=meta, plan=plan))
            cmds.append(cmd_lifetime(alg, key=key_at("sk", ctr), meta=meta))
        # a key blob that names a list key generation refuses (signatures longer than 65535 bytes: eight levels of W1):
        # no callback, no signature, no crash - through every entry point
        if n * 8 * (8 * n + 9 + 3) > 65535:
            big = (bytes(8) + bytes([0x11] * 8) + det_bytes("c11/big/%s" % alg, n)).hex()       # 8 x (LmsH2, W1)
            meta = {"class": "unrepresentable_list_blob"}
            for plan in ("accept", "reject"):
                cmds.append(cmd_sign(alg, big, "0708", meta=meta, plan=plan))
            cmds.append(cmd_lifetime(alg, key=big, meta=meta))
            cmds.append({"op": "load", "alg": alg, "mem": "mbig", "key": big, "meta": meta})
            cmds.append(cmd_sign(alg, None, "0708", api="mem", mem="mbig", meta=meta))
            cmds.append(cmd_lifetime(alg, mem="mbig", meta=meta))
        # the boundary of the 65535-byte signature container: seven levels of W1/H5 plus one of W2/H5 need 65644 bytes
        if n == 32:
            for li, plist in enumerate(([(1, 5)] * 7 + [(2, 5)], [(2, 5)] + [(1, 5)] * 7, [(1, 5)] * 7 + [(4, 5)])):
                meta = {"class": "list_at_signature_length_boundary", "i": li}
                cmds.append(cmd_keygen(alg, plist, seed_hex("c11/bound/%s" % alg, alg), out={"sk": "bsk", "pk": "bpk"}, meta=meta))
                bb = (bytes(8) + bytes((HT[h] << 4) + WT[w] for w, h in plist) + det_bytes("c11/bound/blob/%s" % alg, n)).hex()
                cmds.append(cmd_sign(alg, bb, "0b0b", meta=meta, light=True))
                cmds.append(cmd_lifetime(alg, key=bb, meta=meta))
        wiped = "00" * 8 + "ff" * 8 + "00" * n
        for plan in ("accept", "reject", "crash_before"):
            cmds.append(cmd_sign(alg, wiped, "03", meta={"class": "wiped"}, plan=plan))
        cmds.append(cmd_lifetime(alg, key=wiped, meta={"class": "wiped"}))
        cmds.append(cmd_sign(alg, {"mut": wiped, "kind": "set", "off": 16, "with": "01"}, "03", meta={"class": "wiped_seed_nonzero"}))
        groups.append({"name": "c11/%s/counters" % alg, "cmds": cmds, "cost": 2.0})
        # (e) auxiliary buffers: short lengths and every bit of the level word, keygen and sign
        cmds = [cmd_keygen(alg, [(4, 5)], seed_hex("c11/e/%s" % alg, alg), aux={"rep": 4 + n + 32 * n + 8 * n + 2 * n + 20, "byte": 0},
                           out={"sk": "sk", "pk": "pk", "aux": "aux"})]
        for ln in list(range(0, 12)) + [n, n + 3, n + 4, n + 5, 4 + 3 * n]:
            for fill in (0, 0xa5):
                meta = {"class": "aux_short", "len": ln, "fill": fill}
                cmds.append(cmd_keygen(alg, [(4, 5)], seed_hex("c11/e/%s" % alg, alg), aux={"rep": ln, "byte": fill}, out={"sk": "x"}, meta=meta))
                cmds.append(cmd_sign(alg, slot("sk"), "04", aux={"rep": ln, "byte": fill}, meta=meta))
            meta = {"class": "aux_truncated", "len": ln}
            cmds.append(cmd_sign(alg, slot("sk"), "05", aux={"mut": slot("aux"), "kind": "trunc", "len": ln}, meta=meta))
            cmds.append(cmd_keygen(alg, [(4, 5)], seed_hex("c11/e/%s" % alg, alg), aux={"mut": slot("aux"), "kind": "trunc", "len": ln}, out={"sk": "x"}, meta=meta))
        for bit in range(32):
            meta = {"class": "aux_level_word_bit", "bit": bit}
            a = {"mut": slot("aux"), "kind": "flip", "off": bit // 8, "bit": 7 - bit % 8}
            cmds.append(cmd_sign(alg, key_at("sk", bit % 32), "06", aux=a, meta=meta))
            cmds.append(cmd_keygen(alg, [(4, 5)], seed_hex("c11/e/%s" % alg, alg), aux=a, out={"sk": "x"}, meta=meta))
        groups.append({"name": "c11/%s/aux" % alg, "cmds": cmds, "cost": 3.0 + tree_cost(alg, 4, 5)})
    return [{"tag": "c11", "groups": groups,
             "space": "parameter-list lengths 0..10; key lengths 0..64 x entry points; 8 parameter bytes x 256 values; counters at/beyond 2^T; "
                      "wiped keys; aux lengths and every level-word bit"}]


REGISTRY["C11"] = {"phases": c11_phases, "design": lambda ctx: api_design(ctx, [])[:3]}


# =================================================================================================
# C12 - the Winternitz digit encoding is RFC-exact and domination-free
# =================================================================================================
def gen_digests(ctx, n, w, stride):
    outp = os.path.join(ctx["workdir"], "digests_%d_%d.ndjson" % (n, w))
    rc, out, st = run_tlc("GenDigests", "GenDigests.cfg", os.path.join(ctx["workdir"], "meta-gd-%d-%d" % (n, w)),
                          env={"GEN_N": str(n), "GEN_W": str(w), "GEN_STRIDE": str(stride), "GEN_OUT": outp}, timeout=900, xmx="4g")
    if rc != 0 or not os.path.exists(outp):
        raise ToolError("GenDigests failed: " + out[-1500:])
    return [json.loads(x) for x in open(outp)]


def high_checksum_groups(ctx):
    """END TO END through released signatures (not through the encoder accessor): a message whose LM-OTS digest has a
    checksum >= 256 for n = 32, w = 2 - the only parameter set where the checksum needs its ninth bit AND such digests can
    be found (about one message in four million; the harness searches, TLC judges the signature byte for byte)"""
    groups = []
    for alg in ("sha256_n32", "shake256_n32") if ctx["tier"] != "quick" else ("sha256_n32",):
        n = 32
        name = "c12/highcksum/%s" % alg
        cmds = [cmd_keygen(alg, [(2, 2)], seed_hex(name, alg)),
                # C is derived from the seed per leaf: any signature at the same counter shows it (bytes 12..12+n)
                cmd_sign(alg, key_at("sk", 1), "00", out={"sig": "probe"}),
                {"op": "find_msg", "alg": alg, "I": {"slice": slot("pk"), "off": 12, "len": 16}, "q": "00000001",
                 "C": {"slice": slot("probe"), "off": 12, "len": n}, "w": 2, "min_cksum": 256, "out": {"msg": "hm"}},
                cmd_sign(alg, key_at("sk", 1), slot("hm"), out={"sig": "hsig"}, meta={"class": "high_checksum_digest"}),
                cmd_verify(alg, slot("hm"), slot("hsig"), slot("pk"), meta={"class": "high_checksum_digest"})]
        groups.append({"name": name, "cmds": cmds, "cost": 12.0})
    return groups


def c12_phases(ctx):
    quick = ctx["tier"] == "quick"
    from vlib import WT
    groups = []
    sizes = {}
    from concurrent.futures import ThreadPoolExecutor
    jobs = [(n, w) for n in (16, 24, 32) for w in (1, 2, 4, 8)]
    with ThreadPoolExecutor(max_workers=6) as ex:
        res = list(ex.map(lambda nw: gen_digests(ctx, nw[0], nw[1], 13 if quick else 1), jobs))
    dig = dict(zip(jobs, res))
    for alg in ALGS:
        n = N_OF[alg]
        # every type code the table may know (RFC 8554 defines 1..4; whatever else is accepted must obey Appendix B as well)
        cmds = [{"op": "hook", "hook": "ots_params", "alg": alg, "type": t} for t in range(0, 21)]
        groups.append({"name": "c12/%s/params" % alg, "cmds": cmds, "cost": 0.5})
        for w in (1, 2, 4, 8):
            ds = dig[(n, w)]
            sizes["%d/%d" % (n, w)] = len(ds)
            # SHAKE variants share the encoder with SHA-256 of the same n: they get the extremes and a sample
            if not IS_SHA(alg):
                ds = [d for i, d in enumerate(ds) if d["family"] == "ext" or i % 17 == 0]
            chunk = 1500
            for s in range(0, len(ds), chunk):
                cmds = [{"op": "hook", "hook": "digits", "alg": alg, "type": WT[w], "digest": d["hex"], "meta": {"family": d["family"]}}
                        for d in ds[s:s + chunk]]
                cmds += [{"op": "hook", "hook": "digits", "alg": alg, "type": WT[w], "digest": det_bytes("c12/%s/%d/%d" % (alg, w, i), n).hex(),
                          "meta": {"family": "random"}} for i in range(20 if s == 0 else 0)]
                groups.append({"name": "c12/%s/w%d/%d" % (alg, w, s), "cmds": cmds, "cost": 0.3 + len(cmds) * 0.004 * (8 // w)})
    groups += high_checksum_groups(ctx)
    # END TO END for every (hash, w): the chain positions of released signatures (byte-exact signatures pin them), whatever
    # function the signer computes them with
    for alg in ALGS:
        for w in (1, 2, 4, 8):
            groups.append(walk_group("c12/e2e/%s/w%d" % (alg, w), alg, [(w, 2)], [0, 1, 2, 3] if not quick else [1, 2], [0, 33, 7, 64]))
    ctx["digest_space"] = sizes
    return [{"tag": "c12", "groups": groups,
             "space": "parameter table for 6 hashes x 4 types; digests enumerated by GenDigests.tla: every byte position x byte value, every attainable checksum value, extremes, random"}]


def IS_SHA(alg):
    return alg.startswith("sha256")


REGISTRY["C12"] = {"phases": c12_phases,
                   "design": lambda ctx: [{"module": "MC_Ots", "cfg": "MC_Ots.cfg", "workers": 8, "xmx": "8g"}],
                   "coverage_extra": lambda ctx, cov: {"digest_space_sizes": ctx.get("digest_space"),
                                                       "exhaustive_on_spec": "MC_Ots: all 12 parameter sets, every attainable checksum value, every digit position x byte value, all pairs of one-byte digests"}}


# =================================================================================================
# C13 - leaf selection follows the mixed-radix rule for every key shape (+ C05 arithmetic)
# =================================================================================================
def gen_arith(ctx, tuples, tag):
    inp = os.path.join(ctx["workdir"], "arith_in_%s.ndjson" % tag)
    outp = os.path.join(ctx["workdir"], "arith_out_%s.ndjson" % tag)
    with open(inp, "w") as f:
        for t in tuples:
            f.write(json.dumps({"heights": list(t)}) + "\n")
    rc, out, st = run_tlc("GenArith", "GenArith.cfg", os.path.join(ctx["workdir"], "meta-ga-" + tag), env={"GEN_IN": inp, "GEN_OUT": outp},
                          timeout=1500, xmx="4g")
    if rc != 0 or not os.path.exists(outp):
        raise ToolError("GenArith failed: " + out[-1500:])
    return [json.loads(x) for x in open(outp)]


def all_tuples(heights, maxlen):
    import itertools
    for ln in range(1, maxlen + 1):
        for t in itertools.product(heights, repeat=ln):
            yield t


def arith_groups(ctx, quick):
    from vlib import HT
    heights = [2, 5, 10, 15, 20, 25]
    tuples = list(all_tuples(heights, 2 if quick else 3))
    # sampled longer tuples (VERIF_SEED), always including the uniform extremes and tall lists
    extra = [(25,) * k for k in range(3, 9)] + [(5,) * 8, (2,) * 8, (25, 20, 15, 10, 5, 2), (2, 5, 10, 15, 20, 25), (20, 20, 20, 5), (25, 25, 10, 5)]
    nsample = 150 if quick else 3000
    for i in range(nsample):
        ln = 3 + det_int("c13/len/%d" % i, 6)
        extra.append(tuple(heights[det_int("c13/h/%d/%d" % (i, j), 6)] for j in range(ln)))
    tuples += extra
    # ask the specification for the boundary counters, in parallel chunks
    from concurrent.futures import ThreadPoolExecutor
    chunks = [tuples[i::8] for i in range(8)]
    with ThreadPoolExecutor(max_workers=8) as ex:
        outs = list(ex.map(lambda ic: gen_arith(ctx, ic[1], str(ic[0])), enumerate(chunks)))
    groups = []
    nev = 0
    for ci, out in enumerate(outs):
        for start in range(0, len(out), 15):
            cmds = []
            for rec in out[start:start + 15]:
                hs = rec["heights"]
                pb = bytes((HT[h] << 4) + 4 for h in hs) + b"\xff" * (8 - len(hs))
                alg = ALGS[(len(hs) + hs[0]) % 6]
                ctrs = list(rec["ctrs"]) + [det_bytes("c13/rnd/%s/%d" % (hs, r), 8).hex() for r in range(2)]
                for c in ctrs:
                    cmds.append({"op": "hook", "hook": "ctr", "alg": alg, "params": pb.hex(), "heights": hs, "ctr": c})
                    nev += 1
            groups.append({"name": "c13/arith/%d/%d" % (ci, start), "cmds": cmds, "cost": 0.2 + 0.01 * len(cmds)})
    ctx["arith_tuples"] = len(tuples)
    return groups


def c13_phases(ctx):
    quick = ctx["tier"] == "quick"
    groups = arith_groups(ctx, quick)
    # end to end: the q fields of released signatures for affordable shapes with MIXED heights
    for ai, alg in enumerate(ALGS if not quick else ALGS[::3]):
        groups.append(walk_group("c13/e2e/%s/2-5" % alg, alg, [(4, 2), (4, 5)], [0, 31, 32, 33, 95, 96, 127], [3], light=True))
        groups.append(walk_group("c13/e2e/%s/5-2" % alg, alg, [(4, 5), (4, 2)], [0, 3, 4, 5, 63, 64, 127], [3], light=True))
        groups.append(walk_group("c13/e2e/%s/2-5-2" % alg, alg, [(8, 2), (4, 5), (2, 2)], [0, 3, 4, 127, 128, 129, 511], [3], light=True))
        # counters BEYOND the lifetime (a foreign / damaged key file): no digit exists for them - refused, whichever bits are set
        for tag, params in (("5", [(4, 5)]), ("2-5", [(4, 2), (4, 5)])):
            T = sum(h for _, h in params)
            below = T - params[0][1]
            cmds = [cmd_keygen(alg, params, seed_hex("c13/beyond/%s/%s" % (alg, tag), alg))]
            for c in [1 << T, (1 << T) + 1, (1 << 32) + 5, ((1 << 32) << below) + 5, (1 << (32 + below)) - 1, (1 << 40) + 3, (1 << 63) + 1, (1 << 64) - 1,
                      (1 << 33) | 7, ((1 << 32) << below) | ((1 << params[0][1]) - 1) << below]:
                meta = {"class": "counter_beyond_lifetime", "ctr": "%016x" % c}
                cmds.append(cmd_sign(alg, key_at("sk", c), "c13b", meta=meta, plan="accept"))
                cmds.append(cmd_lifetime(alg, key=key_at("sk", c), meta=meta))
            groups.append({"name": "c13/beyond/%s/%s" % (alg, tag), "cmds": cmds, "cost": 1.0})
        if not quick:
            groups.append(walk_group("c13/e2e/%s/5-10" % alg, alg, [(8, 5), (4, 10)], [1023, 1024, 1025, 32767], [3], light=True))
            groups.append(walk_group("c13/e2e/%s/10-2" % alg, alg, [(8, 10), (4, 2)], [3, 4, 4095], [3], light=True))
        elif ai == 0:
            groups.append(walk_group("c13/e2e/%s/10-2" % alg, alg, [(4, 10), (4, 2)], [3, 4, 1024, 4095], [3], light=True))
    # a TALL list (seven H10 levels, total height 70 >= 64) through the public API: lifetime query and signing do not fail
    for alg in (("sha256_n16",) if quick else ("sha256_n16", "shake256_n16")):
        cmds = [cmd_keygen(alg, [(1, 10)] * 7, seed_hex("c13/tall/%s" % alg, alg)),
                cmd_lifetime(alg, key=slot("sk"), meta={"class": "tall_list"}),
                {"op": "load", "alg": alg, "mem": "mt", "key": key_at("sk", 5)},
                cmd_lifetime(alg, mem="mt", meta={"class": "tall_list"}),
                cmd_sign(alg, key_at("sk", 1025), "7a11", out={"sig": "tsig"}, light=True, meta={"class": "tall_list"}),
                cmd_verify(alg, "7a11", slot("tsig"), slot("pk"))]
        groups.append({"name": "c13/tall/%s/7xh10" % alg, "cmds": cmds, "cost": 8.0})
    # the successor rule through the in-memory key (SignerMut): the last leaves, the wiped state after them
    for ai, alg in enumerate(ALGS if not quick else ALGS[1::3]):
        groups.append(lifetime_walk("c13/mem-end/%s/h5" % alg, alg, [(4, 5)], ["accept"], api="mem", start=32 - 4))
        groups.append(lifetime_walk("c13/mem-end/%s/h5h2" % alg, alg, [(2, 5), (4, 2)], ["accept"], api="mem", start=128 - 6))
    return [{"tag": "c13", "groups": groups,
             "space": "height tuples (all short ones + VERIF_SEED-sampled longer ones + tall lists) x boundary counters from MC_Arith!BoundaryCtrs + random; "
                      "end to end through the leaf-index fields of signatures for mixed-height shapes"}]


def c13_design(ctx):
    if ctx["tier"] == "quick":
        return [{"module": "MC_Arith", "cfg": "MC_Arith_quick.cfg", "workers": 16, "xmx": "8g"}]
    return [{"module": "MC_Arith", "cfg": "MC_Arith_quick.cfg", "workers": 16, "xmx": "8g"},
            {"module": "MC_Arith", "cfg": "MC_Arith_full.cfg", "workers": 16, "xmx": "8g", "timeout": 9000}]


REGISTRY["C13"] = {"phases": c13_phases, "design": c13_design,
                   "coverage_extra": lambda ctx, cov: {"height_tuples_replayed_on_code": ctx.get("arith_tuples")}}


# =================================================================================================
# C10 - auxiliary data is a transparent, authenticated cache and nothing more
# =================================================================================================
def aux_full_len(alg, h):
    n = N_OF[alg]
    return 4 + n + sum(n << l for l in range(h, 0, -2))


def c10_phases(ctx):
    quick = ctx["tier"] == "quick"
    groups = []
    for ai, alg in enumerate(ALGS):
        n = N_OF[alg]
        w = [4, 4, 8, 4, 2, 4][ai]
        params = [(w, 5)] if ai % 2 == 0 else [(w, 5), (4, 2)]
        full = aux_full_len(alg, 5)
        sd = seed_hex("c10/%s" % alg, alg)
        pre = [cmd_keygen(alg, params, sd, aux={"rep": full + 40, "byte": 0}, out={"sk": "sk", "pk": "pk", "aux": "aux"}, meta={"class": "fresh_zero_roomy"}),
               cmd_keygen(alg, params, seed_hex("c10/%s/other" % alg, alg), aux={"rep": full, "byte": 0}, out={"sk": "osk", "aux": "oaux"}, meta={"class": "fresh_zero_exact"}),
               cmd_keygen(alg, [(8 if w != 8 else 4, 5)] + params[1:], sd, aux={"rep": full, "byte": 0}, out={"sk": "psk", "aux": "paux"}, meta={"class": "fresh_zero_exact"})]
        ctrs = [0, 1, 17, 31] if len(params) == 1 else [0, 5, 64, 127]

        def use(auxexpr, cls, both=True, **kw):
            meta = {"class": cls}
            meta.update(kw)
            out = []
            c = ctrs[det_int("c10/ctr/%s/%s/%s" % (alg, cls, json.dumps(kw, sort_keys=True)), len(ctrs))]
            out.append(cmd_sign(alg, key_at("sk", c), msg_hex("c10/m/%s" % cls, 20), aux=auxexpr, meta=meta))
            if both:
                out.append(cmd_keygen(alg, params, sd, aux=auxexpr, out={"sk": "x"}, meta=meta))
            return out

        # (1) every length 0 .. full+n of a fresh (all zero) buffer and of a truncated valid buffer
        cmds = list(pre)
        step = 1 if not quick else 9
        lens = sorted(set(list(range(0, 4 + n + 3)) + list(range(4 + n + 3, full + n + 1, step)) + [full - 1, full, full + 1, full + n]))
        for ln in lens:
            cmds += use({"rep": ln, "byte": 0}, "fresh_zero", len=ln)
            cmds += use({"mut": slot("aux"), "kind": "trunc", "len": ln}, "valid_truncated", both=(ln % 4 == 0), len=ln)
        groups.append({"name": "c10/%s/lengths" % alg, "cmds": cmds, "cost": 3 + 0.03 * len(cmds) * (3 if w == 8 else 1)})
        # (2) content classes
        cmds = list(pre)
        for i in range(6 if quick else 30):
            cmds += use({"cat": ["00", {"rand": full - 1, "tag": "c10/g0/%s/%d" % (alg, i)}]}, "fresh_garbage_first_byte_zero", i=i)
            cmds += use({"cat": ["%02x" % (1 + det_int("c10/fb/%d" % i, 255)), {"rand": full - 1, "tag": "c10/g1/%s/%d" % (alg, i)}]}, "garbage_first_byte_nonzero", i=i)
            cmds += use({"rand": 1 + det_int("c10/rl/%s/%d" % (alg, i), 2 * full), "tag": "c10/gr/%s/%d" % (alg, i)}, "garbage_random_length", i=i)
        cmds += use(slot("aux"), "valid")
        cmds += use(slot("aux"), "valid")
        cmds += use(slot("oaux"), "valid_other_seed")
        cmds += use({"mut": slot("aux"), "kind": "extend", "with": "00"}, "valid_padded", ext=1)
        cmds += use({"mut": slot("aux"), "kind": "extend", "with": {"rep": n, "byte": 0}}, "valid_padded", ext=n)
        cmds += use({"mut": slot("aux"), "kind": "extend", "with": {"rand": 100, "tag": "c10/pad"}}, "valid_padded", ext=100)
        cmds += use({"rep": full, "byte": 255}, "all_ones")
        cmds += use({"mut": slot("aux"), "kind": "set", "off": 0, "with": "00"}, "valid_but_marker_cleared")
        cmds += use(slot("paux"), "aux_same_seed_other_params")
        # composed faults: cached nodes corrupted AND the buffer truncated around the MAC / padded
        for j, ln in enumerate([full - n, full - n + 1, full - n // 2, full - 1, full - n - 1]):
            bad = {"mut": {"mut": slot("aux"), "kind": "flip", "off": 4 + (7 * j) % (full - n - 4), "bit": j % 8}, "kind": "trunc", "len": ln}
            cmds += use(bad, "corrupted_and_truncated", len=ln)
            bad2 = {"mut": {"mut": slot("oaux"), "kind": "trunc", "len": ln}, "kind": "set", "off": 0, "with": {"slice": slot("aux"), "off": 0, "len": 4}}
            cmds += use(bad2, "other_seed_truncated", len=ln)
        for j, ext in enumerate([1, n, 100]):
            bad = {"mut": {"mut": slot("aux"), "kind": "flip", "off": 4 + 11 * j, "bit": 1}, "kind": "extend", "with": {"rep": ext, "byte": 0}}
            cmds += use(bad, "corrupted_and_padded", ext=ext)
        # the MAC replaced by zeros / the MAC of another buffer / the MAC cut and re-padded with zeros
        cmds += use({"mut": slot("aux"), "kind": "set", "off": full - n, "with": {"rep": n, "byte": 0}}, "mac_zeroed")
        cmds += use({"mut": {"mut": slot("aux"), "kind": "flip", "off": 9, "bit": 2}, "kind": "set", "off": full - n, "with": {"rep": n, "byte": 0}}, "corrupted_mac_zeroed")
        cmds += use({"mut": {"mut": slot("aux"), "kind": "flip", "off": 9, "bit": 2}, "kind": "set", "off": full - n, "with": {"slice": slot("oaux"), "off": full - n, "len": n}}, "corrupted_mac_of_other_seed")
        # a buffer filled during SIGNING with a fresh buffer (never MACed) and re-used afterwards
        cmds.append(cmd_sign(alg, key_at("sk", ctrs[1]), "aa", aux={"rep": full, "byte": 0}, out={"aux": "saux"}, meta={"class": "fresh_zero"}))
        cmds += use(slot("saux"), "left_by_signing_with_fresh_buffer")
        groups.append({"name": "c10/%s/classes" % alg, "cmds": cmds, "cost": 3 + 0.03 * len(cmds) * (3 if w == 8 else 1)})
        # (3) every single-bit corruption of a valid buffer (stride in the quick tier)
        nbits = full * 8
        stride = 1 if not quick else 37
        if w == 8:
            stride = 3 if not quick else 149
        bits = sorted(set(list(range(0, 40)) + list(range(40, nbits, stride)) + list(range(nbits - 8 * n - 8, nbits))))
        chunk = 400
        for s in range(0, len(bits), chunk):
            cmds = list(pre)
            for b in bits[s:s + chunk]:
                region = "marker" if b < 8 else "level_word" if b < 32 else "mac" if b >= nbits - 8 * n else "data"
                cmds += use({"mut": slot("aux"), "kind": "flip", "off": b // 8, "bit": 7 - b % 8}, "valid_bit_flipped", both=(b % 16 == 0), bit=b, region=region)
            groups.append({"name": "c10/%s/bitflip/%d" % (alg, s), "cmds": cmds, "cost": 3 + 0.03 * len(cmds) * (3 if w == 8 else 1)})
    # EVEN-height top trees cache the even levels (h, h-2, ..., 2): an H2 top tree (one cached level of four nodes) for every
    # hash - fresh fill and layout, every byte of the buffer flipped once, other seed, truncation around the MAC
    for ai, alg in enumerate(ALGS):
        n = N_OF[alg]
        w = [4, 2, 8, 4, 1, 2][ai]
        params = [(w, 2)] if ai % 2 else [(w, 2), (4, 2)]
        full = aux_full_len(alg, 2)
        sd = seed_hex("c10/even/%s" % alg, alg)
        cmds = [cmd_keygen(alg, params, sd, aux={"rep": full + 9, "byte": 0}, out={"sk": "sk", "pk": "pk", "aux": "aux"}, meta={"class": "fresh_zero_roomy"}),
                cmd_keygen(alg, params, seed_hex("c10/even/%s/o" % alg, alg), aux={"rep": full, "byte": 0}, out={"sk": "osk", "aux": "oaux"}, meta={"class": "fresh_zero_exact"})]
        total = lifetime_of(params)
        for b in range(0, full, 1 if not quick else 3):
            a = {"mut": slot("aux"), "kind": "flip", "off": b, "bit": (b * 5) % 8}
            region = "level_word" if b < 4 else "mac" if b >= full - n else "data"
            meta = {"class": "valid_bit_flipped", "byte": b, "region": region, "top": "H2"}
            cmds.append(cmd_sign(alg, key_at("sk", (b * 7) % total), msg_hex("c10/even/m", 11), aux=a, meta=meta))
            if b % 2 == 0:
                cmds.append(cmd_keygen(alg, params, sd, aux=a, out={"sk": "x"}, meta=meta))
        for cls, a in (("valid", slot("aux")), ("valid_other_seed", slot("oaux")),
                       ("valid_truncated", {"mut": slot("aux"), "kind": "trunc", "len": full - 1}),
                       ("mac_zeroed", {"mut": slot("aux"), "kind": "set", "off": full - n, "with": {"rep": n, "byte": 0}})):
            cmds.append(cmd_sign(alg, key_at("sk", 1), "e0", aux=a, meta={"class": cls, "top": "H2"}))
            cmds.append(cmd_keygen(alg, params, sd, aux=a, out={"sk": "x"}, meta={"class": cls, "top": "H2"}))
        groups.append({"name": "c10/%s/even-top" % alg, "cmds": cmds, "cost": 2 + 0.02 * len(cmds) * (3 if w == 8 else 1)})
    if not quick:
        # an H10 top tree (cached levels 10, 8, 6, 4, 2) for the cheapest hash
        alg = "sha256_n16"
        full = aux_full_len(alg, 10)
        sd = seed_hex("c10/h10", alg)
        cmds = [cmd_keygen(alg, [(8, 10)], sd, aux={"rep": full, "byte": 0}, out={"sk": "sk", "pk": "pk", "aux": "aux"}, meta={"class": "fresh_zero_exact"})]
        for ln in [0, 3, 19, 20, 51, 52, 100, 1000, 5000, full - 1, full + 16]:
            cmds.append(cmd_keygen(alg, [(8, 10)], sd, aux={"rep": ln, "byte": 0}, out={"sk": "x"}, meta={"class": "fresh_zero", "len": ln}))
        for c in (0, 513, 1023):
            cmds.append(cmd_sign(alg, key_at("sk", c), "bb", aux=slot("aux"), meta={"class": "valid"}, light=True))
        # one bit flipped inside every cached level (2, 4, 6, 8, 10), in the level word and in the MAC
        offs = [1, 4 + 5, 4 + 16 * 4 + 7, 4 + 16 * (4 + 16) + 3, 4 + 16 * (4 + 16 + 64) + 11, 4 + 16 * (4 + 16 + 64 + 256) + 100, full - 3]
        for j, off in enumerate(offs):
            a = {"mut": slot("aux"), "kind": "flip", "off": off, "bit": j % 8}
            cmds.append(cmd_sign(alg, key_at("sk", 37 * j), "bc", aux=a, meta={"class": "valid_bit_flipped", "top": "H10", "off": off}, light=True))
            cmds.append(cmd_verify(alg, "bc", slot("sig"), slot("pk")))
            cmds.append(cmd_keygen(alg, [(8, 10)], sd, aux=a, out={"sk": "x"}, meta={"class": "valid_bit_flipped", "top": "H10", "off": off}))
        groups.append({"name": "c10/h10", "cmds": cmds, "cost": 400})
    return [{"tag": "c10", "groups": groups,
             "space": "buffer lengths 0..full+n (fresh and truncated), content classes (garbage, other seed, other parameters, padded, all ones, left by signing), "
                      "single-bit corruptions of a valid buffer, x keygen and sign, x 6 hashes"}]


# ---- multi-step histories of ONE buffer: behaviours of the HssAux protocol model (TLC simulation) ----
def gen_aux_walks(ctx, num):
    """free walks (TLC simulation, VERIF_SEED) and the scripted histories (exhaustive)"""
    rc, out, st = run_tlc("GenAuxWalks", "GenAuxWalks.cfg", os.path.join(ctx["workdir"], "meta-auxwalks"), workers=1, xmx="4g", timeout=900,
                          extra=["-simulate", "num=%d" % num, "-depth", "60", "-seed", str(seed_int() + 29)])
    uniq = {}
    for w in tlc_printed(out, "WALK"):
        uniq.setdefault(json.dumps(w["steps"][:-1]), w["steps"])      # TLC prints one line per successor of the last step
    if not uniq:
        raise ToolError("GenAuxWalks produced no walk: " + out[-1500:])
    rc, out2, st2 = run_tlc("GenAuxWalks", "GenAuxWalks_scripts.cfg", os.path.join(ctx["workdir"], "meta-auxscripts"), workers=4, xmx="4g", timeout=900)
    scripted = [w for w in tlc_printed(out2, "WALK")]
    if "Error:" in out2 or not scripted:
        raise ToolError("GenAuxWalks_scripts failed: " + out2[-1500:])
    return list(uniq.values())[:num], scripted, st, st2


def aux_real_len(c, n):
    """model length (hash units; level word and MAC one unit each) -> bytes, thresholds preserved"""
    if c <= 1:
        return c
    return 4 + n + (c - 2) * n


def aux_word_hex(levels):
    v = 0
    for l in levels:
        v |= 1 << l
    return "%08x" % (0x80000000 | v) if levels else "80000000"


def concretise_aux_walk(name, walk, alg, params, wi, mem_a=False):
    """mem_a: key "a" is ONE in-memory SigningKey object for the whole history (try_sign_with_aux)"""
    n = N_OF[alg]
    keys = {"a": seed_hex(name + "/a", alg), "b": seed_hex(name + "/b", alg)}
    total = lifetime_of(params)
    cmds = [cmd_keygen(alg, params, keys[k], out={"sk": "sk_" + k, "pk": "pk_" + k}) for k in ("a", "b")]
    cmds.append({"op": "set", "slot": "aux", "value": ""})
    if mem_a:
        cmds.append({"op": "load", "alg": alg, "mem": "mem_a", "key": key_at("sk_a", det_int(name + "/start", max(1, total - 16)))})
    A = slot("aux")
    nsig = 0
    for i, a in enumerate(walk):
        kind = a["a"]
        word = a["word"]

        def off_of(level):
            return 4 + sum(n << l for l in word if l < level)
        size_word = 4 + n + sum(n << l for l in word)
        if kind == "keygen":
            cmds.append(cmd_keygen(alg, params, keys[a["k"]], aux=A if a["aux"] else None, out={"sk": "x", "pk": "y", "aux": "aux"} if a["aux"] else {"sk": "x", "pk": "y"},
                                   meta={"class": "aux_walk", "step": i}))
        elif kind == "sign":
            ctr = det_int("%s/ctr/%d" % (name, i), total)
            m = msg_hex("%s/m/%d" % (name, i), 12)
            if mem_a and a["k"] == "a":
                cmds.append(cmd_sign(alg, None, m, api="mem_aux", mem="mem_a", aux=A if a["aux"] else None,
                                     out={"sig": "sig", "aux": "aux"} if a["aux"] else {"sig": "sig"}, meta={"class": "aux_walk", "step": i}))
            else:
                cmds.append(cmd_sign(alg, key_at("sk_" + a["k"], ctr), m, aux=A if a["aux"] else None,
                                     out={"sig": "sig", "aux": "aux"} if a["aux"] else {"sig": "sig"}, meta={"class": "aux_walk", "step": i}))
            cmds.append(cmd_verify(alg, m, slot("sig"), slot("pk_" + a["k"])))
            nsig += 1
        elif kind == "new_zero":
            cmds.append({"op": "set", "slot": "aux", "value": {"rep": aux_real_len(a["c"], n), "byte": 0}})
        elif kind == "new_garbage":
            ln = aux_real_len(a["c"], n)
            head = aux_word_hex(a["s"]) if a["m"] else "00" + det_bytes("%s/g0/%d" % (name, i), 3).hex()
            cmds.append({"op": "set", "slot": "aux", "value": {"cat": [head, {"rand": max(0, ln - 4), "tag": "%s/g/%d" % (name, i)}]}})
        elif kind == "truncate":
            cmds.append({"op": "set", "slot": "aux", "value": {"mut": A, "kind": "trunc", "len": aux_real_len(a["c"], n)}})
        elif kind == "pad":
            fill = {"rep": 1 << 16, "byte": 0} if (wi + i) % 2 else {"rand": 1 << 16, "tag": "%s/p/%d" % (name, i)}
            cmds.append({"op": "set", "slot": "aux", "value": {"mut": {"mut": A, "kind": "extend", "with": fill}, "kind": "trunc", "len": aux_real_len(a["c"], n)}})
        elif kind == "tamper_data":
            lv = a["lv"]
            pos = off_of(lv) + det_int("%s/td/%d" % (name, i), n << lv)
            cmds.append({"op": "set", "slot": "aux", "value": {"mut": A, "kind": "flip", "off": pos, "bit": det_int("%s/tb/%d" % (name, i), 8)}})
        elif kind == "tamper_word":
            cmds.append({"op": "set", "slot": "aux", "value": {"mut": A, "kind": "set", "off": 0, "with": aux_word_hex(a["s"])}})
        elif kind == "tamper_mac":
            cap = aux_real_len(a["cap"], n)
            pos = (size_word - 1 - det_int("%s/tm/%d" % (name, i), n)) if cap >= size_word else max(0, cap - 1)
            cmds.append({"op": "set", "slot": "aux", "value": {"mut": A, "kind": "flip", "off": pos, "bit": det_int("%s/tmb/%d" % (name, i), 8)}})
        elif kind == "clear_marker":
            cmds.append({"op": "set", "slot": "aux", "value": {"mut": A, "kind": "set", "off": 0, "with": "00"}})
        elif kind == "nop":
            pass
        else:
            raise ToolError("unknown aux walk action " + kind)
    return {"name": name, "cmds": cmds, "cost": 1 + 2 * tree_cost(alg, *params[0]) + 0.05 * len(cmds) * (3 if params[0][0] == 8 else 1), "walk": walk}


def c10_walk_groups(ctx):
    quick = ctx["tier"] == "quick"
    walks, scripted, st, st2 = gen_aux_walks(ctx, 24 if quick else 240)
    groups = []
    labels = set()
    for wi, w in enumerate(walks):
        alg = ALGS[wi % 6]
        w0 = [4, 2, 4, 8, 4, 1][wi % 6] if not quick else [4, 2, 4, 4, 4, 2][wi % 6]
        params = [(w0, 5)] if wi % 3 else [(w0, 5), (4, 2)]
        groups.append(concretise_aux_walk("c10/walk/%d" % wi, w, alg, params, wi, mem_a=(wi % 2 == 1)))
        for a in w:
            labels.add((a["a"], a.get("aux"), bool(a.get("marker")), len(a.get("word", []))))
    for si, w in enumerate(scripted):
        for mem_a in (False, True):
            if quick and (si + mem_a) % 2 and w["sid"] not in (1, 2, 3):
                continue
            alg = ALGS[(si + 3 * mem_a) % 6]
            params = [(4, 5)] if (si + mem_a) % 2 else [(4, 5), (2, 2)]
            groups.append(concretise_aux_walk("c10/script/%d/%d/%s" % (w["sid"], si, "mem" if mem_a else "bytes"), w["steps"], alg, params, si, mem_a=mem_a))
    ctx["aux_walk_stats"] = {"free_walks": len(walks), "sim_states": st["states"], "distinct_step_labels": len(labels),
                             "scripted_behaviours": len(scripted), "scripted_states": st2["distinct"]}
    return groups


def c10_phases_with_walks(ctx):
    ph = c10_phases(ctx)
    ph[0]["groups"] += c10_walk_groups(ctx)
    ph[0]["space"] += "; multi-step histories of one buffer (behaviours of HssAux.tla: keygen/sign of two keys interleaved with tampering, truncation, padding, replacement)"
    return ph


def c10_design(ctx):
    runs = [{"module": "MC_Aux", "cfg": "MC_Aux_h3.cfg", "workers": 8, "xmx": "6g"},
            {"module": "MC_Aux", "cfg": "MC_Aux_neg_nomac.cfg", "workers": 4, "expect": "Invariant OnlyAuthenticatedIsRead is violated"},
            {"module": "MC_Aux", "cfg": "MC_Aux_neg_noclear.cfg", "workers": 4, "expect": "Invariant AuxTransparent is violated"},
            # the design-level form of the known finding (KNOWN_FINDINGS.json, C10): a buffer MACed for the same seed and other parameters is read back
            {"module": "MC_Aux", "cfg": "MC_Aux_known_sameseed.cfg", "workers": 4, "expect": "Invariant AuxTransparent is violated"}]
    if ctx["tier"] != "quick":
        runs.append({"module": "MC_Aux", "cfg": "MC_Aux_h5.cfg", "workers": 12, "xmx": "12g", "timeout": 3000})
    return runs


REGISTRY["C10"] = {"phases": c10_phases_with_walks, "design": c10_design,
                   "coverage_extra": lambda ctx, cov: {"aux_walk_generation": ctx.get("aux_walk_stats")}}


# =================================================================================================
# C14 - build-time limits only restrict what is accepted, never how accepted keys behave
# =================================================================================================
def limit_variant(levels, heights, ws):
    name = "L%d-H%s-W%s" % (levels, "_".join(map(str, heights)), "_".join(map(str, ws)))
    return Variant(name, (), {"HBS_LMS_MAX_ALLOWED_HSS_LEVELS": str(levels),
                              "HBS_LMS_TREE_HEIGHTS": ", ".join(map(str, heights)),
                              "HBS_LMS_WINTERNITZ_PARAMETERS": ", ".join(map(str, ws))})


def blob_for(alg, params, tag):
    from vlib import HT, WT
    pb = bytes((HT[h] << 4) + WT[w] for w, h in params[:8]) + b"\xff" * (8 - min(8, len(params)))
    return (bytes(8) + pb + det_bytes("c14/blob/" + tag, N_OF[alg])).hex()


_FOREIGN = {}


def foreign_triples(ctx):
    """(message, signature, public key) triples made by the DEFAULT build, for verification by the restricted builds"""
    if "t" in _FOREIGN:
        return _FOREIGN["t"]
    v = Variant()
    vlib.build_harness(v)
    sets = [("sha256_n16", [(2, 5)]), ("sha256_n16", [(1, 5)]), ("shake256_n24", [(8, 2)]), ("sha256_n32", [(4, 5)]), ("sha256_n32", [(4, 10)]),
            ("shake256_n32", [(8, 5), (4, 2)]), ("sha256_n24", [(1, 2), (2, 5)]), ("shake256_n16", [(4, 5), (8, 5), (2, 2)])]
    d = os.path.join(ctx["workdir"], "foreign")
    os.makedirs(d, exist_ok=True)
    scen, trace = os.path.join(d, "scenario.ndjson"), os.path.join(d, "trace.ndjson")
    with open(scen, "w") as f:
        for i, (alg, params) in enumerate(sets):
            f.write(json.dumps(cmd_keygen(alg, params, seed_hex("c14/foreign/%d" % i, alg))) + "\n")
            f.write(json.dumps(cmd_sign(alg, key_at("sk", 3), msg_hex("c14/foreign/m/%d" % i, 21), out={"sig": "sig"})) + "\n")
    import subprocess
    p = subprocess.run([v.binary, scen, trace, str(seed_int())], stdout=subprocess.PIPE, stderr=subprocess.STDOUT, timeout=900)
    evs = [json.loads(x) for x in open(trace)] if os.path.exists(trace) else []
    out = []
    kg = None
    for e in evs:
        if e.get("ev") == "keygen":
            kg = e
        elif e.get("ev") == "sign" and kg is not None and e.get("res") == "ok" and kg.get("res") == "ok":
            out.append({"alg": e["alg"], "params": kg["params"], "msg": e["msg"], "sig": e["sig"], "pk": kg["pk"]})
    if len(out) != len(sets):
        raise ToolError("could not produce the foreign triples with the default build: " + p.stdout.decode(errors="replace")[-800:])
    _FOREIGN["t"] = out
    return out


def foreign_group(ctx, levels, heights, ws, name):
    """signatures the DEFAULT build made, verified by a restricted build: within its limits they verify; beyond its height /
    Winternitz limits the outcome may be ok or an error, never a crash and never a wrong acceptance"""
    cmds = []
    for t in foreign_triples(ctx):
        if len(t["params"]) > levels:
            continue
        inside = all(h <= heights[i] and w >= ws[i] for i, (w, h) in enumerate(t["params"]))
        meta = {"class": "foreign_signature_within_limits"} if inside else {"class": "foreign_signature_beyond_limits", "relaxed_beyond_limits": True}
        cmds.append(cmd_verify(t["alg"], t["msg"], t["sig"], t["pk"], meta=meta))
        cmds.append(cmd_verify(t["alg"], t["msg"] + "00", t["sig"], t["pk"], meta=meta))
    return {"name": name, "cmds": cmds, "cost": 1.0}


def c14_variant_groups(levels, heights, ws, vi, quick):
    """parameter lists inside the limits (full use) and just outside (refusal)"""
    groups = []
    hs_avail = [2, 5, 10, 15, 20, 25]
    w_avail = [1, 2, 4, 8]
    algs = [ALGS[(vi + i) % 6] for i in range(2 if quick else 4)]
    for alg in algs:
        n = N_OF[alg]
        # ---- inside the limits: 4-leaf trees wherever possible (any height limit admits them), the
        # smallest Winternitz parameter the level allows; one list with the tallest affordable top tree
        inside = [(max(ws[lv], 2), 2) for lv in range(levels)]
        lists_in = [inside]
        if levels >= 2:
            lists_in.append(inside[:1])
        for li, params in enumerate(lists_in):
            total = lifetime_of(params)
            ctrs = sorted(set([0, total // 2, total - 1]))
            g = walk_group("c14/in/%s/%d" % (alg, li), alg, params, ctrs, [11, 0], lifetime=True)
            # exhaust: the last signature wipes, afterwards refused
            g["cmds"].append(cmd_sign(alg, key_at("sk", total - 1), "ee", out={"next": "wiped"}))
            g["cmds"].append(cmd_sign(alg, slot("wiped"), "ef"))
            g["cmds"].append(cmd_lifetime(alg, slot("wiped")))
            groups.append(g)
        if alg == algs[0]:
            # the LONGEST signatures the limits allow (per-level maximum height capped at 10 for affordability,
            # per-level minimum w): exercises every fixed-size buffer of the build
            big = [(ws[lv], min(heights[lv], 10)) for lv in range(levels)]
            if sum(h for _, h in big) <= 25 and all(not (w == 8 and h == 10) for w, h in big):
                bt = lifetime_of(big)
                g = walk_group("c14/in/%s/longest" % alg, alg, big, [0, bt - 1], [9], light=True)
                g["cmds"].insert(0, {"op": "info"})
                groups.append(g)
            # with aux and a top tree as tall as the build allows (<= 5): a cached level equal to the build's
            # maximum tree height must be covered by the MAC and read back
            top = (max(ws[0], 4), 5 if heights[0] >= 5 else 2)
            full = aux_full_len(alg, top[1])
            cmds = [cmd_keygen(alg, [top], seed_hex("c14/aux/%s" % alg, alg), aux={"rep": full, "byte": 0},
                               out={"sk": "ask", "pk": "apk", "aux": "aaux"}, meta={"class": "fresh_zero_exact"}),
                    cmd_sign(alg, key_at("ask", 1), "c14a", aux=slot("aaux"), out={"sig": "asig"}, meta={"class": "valid"}),
                    cmd_verify(alg, "c14a", slot("asig"), slot("apk")),
                    cmd_lifetime(alg, key_at("ask", 7))]
            groups.append({"name": "c14/aux/%s" % alg, "cmds": cmds, "cost": 1 + tree_cost(alg, *top)})
        # ---- just outside
        cmds = []
        outside = []
        if levels < 8:
            outside.append(("one_level_too_many", inside + [(8, 2)]))
        inside_o = inside
        outside.append(("nine_levels", [(8, 2)] * 9))
        for lv in range(levels):
            taller = [h for h in hs_avail if h > heights[lv]]
            if taller:
                p = list(inside)
                p[lv] = (p[lv][0], taller[0])
                outside.append(("height_step_too_tall_level%d" % (lv + 1), p))
            smaller = [w for w in w_avail if w < ws[lv]]
            if smaller:
                p = list(inside)
                p[lv] = (smaller[-1], p[lv][1])
                outside.append(("w_step_too_small_level%d" % (lv + 1), p))
        for cls, params in outside:
            meta = {"class": "beyond_limits", "how": cls}
            cmds.append(cmd_keygen(alg, params, seed_hex("c14/out/%s" % alg, alg), out={"sk": "x", "pk": "y"}, meta=meta))
            cmds.append(cmd_keygen(alg, params, seed_hex("c14/out/%s" % alg, alg), aux={"rep": 100, "byte": 0}, out={"sk": "x", "pk": "y"}, meta=meta))
            if len(params) <= 8:
                blob = blob_for(alg, params, cls)
                cmds.append(cmd_sign(alg, blob, "0a", meta=meta))
                cmds.append(cmd_sign(alg, blob, "0a", meta=meta, plan="reject"))
                cmds.append(cmd_lifetime(alg, blob, meta=meta))
                cmds.append({"op": "load", "alg": alg, "mem": "m", "key": blob, "meta": meta})
                cmds.append(cmd_sign(alg, None, "0b", api="mem", mem="m", meta=meta))
        groups.append({"name": "c14/out/%s" % alg, "cmds": cmds, "cost": 1.0})
    return groups


def c14_phases(ctx):
    quick = ctx["tier"] == "quick"
    # per-level limits in ascending AND descending order (a build script that looks at the first / last entry only, or
    # compares the entries as text, computes wrong buffer sizes for one of them)
    configs = [(1, [5], [4]), (2, [5, 10], [4, 2]), (3, [10, 5, 5], [2, 8, 4])]
    if not quick:
        configs += [(3, [5, 5, 5], [8, 8, 8]), (2, [10, 5], [2, 4]), (4, [5, 10, 5, 5], [1, 2, 4, 8]), (1, [25], [1]), (2, [5, 5], [8, 8]), (5, [5] * 5, [4] * 5), (6, [15, 10, 5, 5, 5, 5], [2, 2, 4, 4, 8, 8]),
                    (7, [5] * 7, [8] * 7), (8, [10, 5, 5, 5, 5, 5, 5, 5], [4] * 8), (3, [20, 15, 10], [1, 2, 4]), (2, [5, 25], [8, 1])]
    phases = []
    for vi, (levels, heights, ws) in enumerate(configs):
        v = limit_variant(levels, heights, ws)
        phases.append({"tag": "c14-" + v.name, "variant": v,
                       "groups": c14_variant_groups(levels, heights, ws, vi, quick) + [foreign_group(ctx, levels, heights, ws, "c14/foreign/" + v.name)],
                       "controls": vi == 0,
                       "space": "build %s: lists inside the limits (keygen/sign/verify/lifetime/aux/exhaust) and just outside (one level too many, "
                                "one height step too tall, one w step too small per level)" % v.name})
    # the DEFAULT build: its limits are "8 levels, any height, any w" plus the 65535-byte signature container - lists beyond
    # them (nine levels; eight levels of W1 with a 32-byte hash, also when they arrive in a key blob) are refused
    groups = []
    for alg in ("sha256_n32", "shake256_n32"):
        n = 32
        big = (bytes(8) + bytes([0x11] * 8) + det_bytes("c14/big/%s" % alg, n)).hex()
        meta = {"class": "beyond_limits", "how": "signature_longer_than_65535"}
        cmds = [cmd_keygen(alg, [(1, 2)] * 8, seed_hex("c14/def/%s" % alg, alg), out={"sk": "x", "pk": "y"}, meta=meta),
                cmd_keygen(alg, [(8, 2)] * 9, seed_hex("c14/def/%s" % alg, alg), out={"sk": "x", "pk": "y"}, meta={"class": "beyond_limits", "how": "nine_levels"}),
                cmd_sign(alg, big, "0c14", meta=meta), cmd_sign(alg, big, "0c14", meta=meta, plan="reject"), cmd_lifetime(alg, key=big, meta=meta),
                {"op": "load", "alg": alg, "mem": "mbig", "key": big, "meta": meta},
                cmd_sign(alg, None, "0c14", api="mem", mem="mbig", meta=meta), cmd_lifetime(alg, mem="mbig", meta=meta)]
        # ... while the longest list that fits (seven levels of W1) is fully usable
        g = walk_group("c14/def/%s/7xw1" % alg, alg, [(1, 2)] * 7, [0, (1 << 14) - 1], [9], light=True)
        groups.append({"name": "c14/def/%s/beyond" % alg, "cmds": cmds, "cost": 2.0})
        groups.append(g)
    phases.append({"tag": "c14-default-build", "variant": None, "groups": groups, "controls": False,
                   "space": "default build: lists beyond its limits (nine levels, signatures longer than 65535 bytes - as parameter list and as key blob) "
                            "refused; the longest list within them usable"})
    return phases


REGISTRY["C14"] = {"phases": c14_phases}


# =================================================================================================
# C15 - fast-verify signing yields ordinary valid signatures, touching only the trailer
# =================================================================================================
def fv_variant(threads, budget):
    return Variant("fv-t%d-b%d" % (threads, budget), ("fast_verify", "verbose"),
                   {"HBS_LMS_THREADS": str(threads), "HBS_LMS_MAX_HASH_OPTIMIZATIONS": str(budget)})


def cmd_sign_mut(alg, key, msg, plan="accept", out=None, meta=None):
    c = {"op": "sign_mut", "alg": alg, "api": "bytes", "key": key, "msg": msg, "plan": plan}
    if out:
        c["out"] = out
    if meta:
        c["meta"] = meta
    return c


def c15_groups(vi, quick, reps):
    groups = []
    for ai, alg in enumerate(ALGS):
        n = N_OF[alg]
        ws = [1, 2, 4, 8]
        wsel = ws if not quick else [ws[(ai + vi) % 4], ws[(ai + vi + 2) % 4]]
        for w in wsel:
            for params in ([(w, 2)], [(ws[(ws.index(w) + 1) % 4], 2), (w, 2)]):
                if quick and len(params) == 2 and (ai + vi) % 2:
                    continue
                name = "c15/%s/%s" % (alg, "x".join("w%dh%d" % p for p in params))
                cmds = [cmd_keygen(alg, params, seed_hex(name, alg))]
                total = lifetime_of(params)
                ctr = 0
                for li, ln in enumerate([n + 1, n + 2, 100, 4096][:(4 if not quick else 3)]):
                    for r in range(reps):
                        body = msg_hex("%s/%d/%d" % (name, ln, r), ln - n)
                        m = {"cat": [body, {"rep": n, "byte": 0}]}
                        plan = "accept" if (r + li) % 3 != 2 else "reject"      # a rejecting callback at every length, also with two repetitions
                        cmds.append(cmd_sign_mut(alg, key_at("sk", ctr % total), m, plan=plan, out={"sig": "sig", "msg_out": "mo"},
                                                 meta={"class": "zero_trailer", "len": ln}))
                        cmds.append(cmd_verify(alg, slot("mo"), slot("sig"), slot("pk")))
                        ctr += 1
                # refusal: too short, trailer not zero
                for ln in (0, 1, n - 1, n):
                    cmds.append(cmd_sign_mut(alg, key_at("sk", 1), {"rep": ln, "byte": 0}, meta={"class": "too_short", "len": ln}))
                for pos in (0, n // 2, n - 1):
                    m = {"mut": {"cat": ["a1b2c3", {"rep": n, "byte": 0}]}, "kind": "set", "off": 3 + pos, "with": "01"}
                    cmds.append(cmd_sign_mut(alg, key_at("sk", 2), m, meta={"class": "trailer_not_zero", "pos": pos}))
                # unusable keys
                cmds.append(cmd_sign_mut(alg, key_at("sk", total), {"cat": ["aa", {"rep": n, "byte": 0}]}, meta={"class": "counter_out_of_range"}))
                cmds.append(cmd_sign_mut(alg, "00" * 8 + "ff" * 8 + "00" * n, {"cat": ["aa", {"rep": n, "byte": 0}]}, meta={"class": "wiped"}))
                # with a valid aux buffer (filled by key generation) and with a fresh one: the same ordinary signature
                if len(params) == 1:
                    full = aux_full_len(alg, 2)
                    cmds.append(cmd_keygen(alg, params, seed_hex(name, alg), aux={"rep": full + 8, "byte": 0}, out={"sk": "ask", "pk": "apk", "aux": "aux"},
                                           meta={"class": "fresh_zero_roomy"}))
                    for ai2, auxexpr in enumerate((slot("aux"), {"rep": full, "byte": 0})):
                        c = cmd_sign_mut(alg, key_at("sk", 1), {"cat": [msg_hex(name + "/aux", 9), {"rep": n, "byte": 0}]}, out={"sig": "sig", "msg_out": "mo"},
                                         meta={"class": "zero_trailer_with_aux", "aux": ai2})
                        c["aux"] = auxexpr
                        cmds.append(c)
                        cmds.append(cmd_verify(alg, slot("mo"), slot("sig"), slot("pk")))
                # the ordinary entry point of the same build
                cmds.append(cmd_sign(alg, key_at("sk", 3 % total), "0102", out={"sig": "s2"}))
                cmds.append(cmd_verify(alg, "0102", slot("s2"), slot("pk")))
                groups.append({"name": name, "cmds": cmds, "cost": 1 + tree_cost(alg, *params[0]) + len(cmds) * sign_cost(alg, params)})
    return groups


def c15_mixed_groups(vi, quick):
    """one process signs with ALL hashes in turn (same Winternitz parameter, different output sizes): whatever the library
    remembers between calls - a table, a buffer - must not leak from one hash into the next"""
    groups = []
    for w in ((4,) if quick else (1, 2, 4, 8)):
        cmds = []
        order = [ALGS[(vi + i) % 6] for i in (0, 1, 2, 3, 4, 5, 0, 2)]
        for i, alg in enumerate(order):
            n = N_OF[alg]
            name = "c15/mixed/w%d/%d/%s" % (w, i, alg)
            cmds.append(cmd_keygen(alg, [(w, 2)], seed_hex(name, alg), out={"sk": "sk%d" % i, "pk": "pk%d" % i}))
            m = {"cat": [msg_hex(name, 20 + i), {"rep": n, "byte": 0}]}
            cmds.append(cmd_sign_mut(alg, key_at("sk%d" % i, i % 4), m, out={"sig": "sig", "msg_out": "mo"}, meta={"class": "zero_trailer", "mixed": True}))
            cmds.append(cmd_verify(alg, slot("mo"), slot("sig"), slot("pk%d" % i)))
        groups.append({"name": "c15/mixed/w%d" % w, "cmds": cmds, "cost": 4.0})
    return groups


def c15_phases(ctx):
    quick = ctx["tier"] == "quick"
    configs = [(1, 200), (4, 64), (8, 3)] if quick else [(1, 200), (2, 200), (4, 64), (8, 64), (8, 3), (3, 100), (1, 1), (2, 0)]
    phases = []
    for vi, (threads, budget) in enumerate(configs):
        v = fv_variant(threads, budget)
        phases.append({"tag": "c15-" + v.name, "variant": v, "groups": c15_groups(vi, quick, 2 if quick else 10) + c15_mixed_groups(vi, quick), "controls": vi == 0,
                       "space": "fast_verify build with %d threads, budget %d: 6 hashes x W x messages (n+1, n+2, 100, 4096) x repetitions; refusal cases" % (threads, budget)})
    return phases


REGISTRY["C15"] = {"phases": c15_phases,
                   "design": lambda ctx: [{"module": "FastVerify", "cfg": "FastVerify.cfg", "workers": 8, "xmx": "8g"},
                                          {"module": "FastVerify", "cfg": "FastVerify_b0.cfg", "workers": 4, "xmx": "4g"},
                                          {"module": "FastVerify", "cfg": "FastVerify_neg.cfg", "workers": 4, "xmx": "4g",
                                           "expect": "Invariant ChoiceIsBest is violated"}]}


# =================================================================================================
# C16 - secret-bearing values are wiped when dropped or exhausted
# =================================================================================================
SECRET_TYPES = ["Seed", "SeedAndLmsTreeIdentifier", "ReferenceImplPrivateKey", "LmsPrivateKey", "LmotsPrivateKey"]


def c16_phases(ctx):
    quick = ctx["tier"] == "quick"
    groups = []
    fills = [0xa5, 0x5a, 0x3c] if quick else [0xa5, 0x5a, 0x3c, 0xc3, 0x69, 0x96, 0x1e, 0xe1]   # never 0x00/0xff: their complement is what wiping leaves
    for alg in ALGS:
        cmds = []
        for ty in SECRET_TYPES:
            for fill in fills:
                cmds.append({"op": "hook", "hook": "zeroize", "alg": alg, "type_name": ty, "fill": fill})
                cmds.append({"op": "hook", "hook": "drop", "alg": alg, "type_name": ty, "fill": fill})
        # a Seed made by the public constructor from a 32-byte array (all 32 bytes are the caller's secret), dropped
        for fill in fills:
            cmds.append({"op": "hook", "hook": "drop", "alg": alg, "type_name": "SeedFromArray", "fill": fill})
        groups.append({"name": "c16/%s/probes" % alg, "cmds": cmds, "cost": 0.3})
    # exhaustion histories: the key handed to the callback by the last signature holds no seed byte
    cyc = [["accept"], ["reject", "accept"], ["crash_after", "accept"]]
    for ai, alg in enumerate(ALGS):
        groups.append(lifetime_walk("c16/%s/exhaust" % alg, alg, [([1, 2, 4, 8][ai % 4], 2)], cyc[ai % 3]))
        if ai % 2 == 0 or not quick:
            groups.append(lifetime_walk("c16/%s/exhaust-mem" % alg, alg, [([2, 4, 8, 1][ai % 4], 2)], ["accept"], api="mem"))
        if not quick:
            groups.append(lifetime_walk("c16/%s/exhaust2" % alg, alg, [(4, 2), ([1, 2, 4, 8][(ai + 1) % 4], 2)], cyc[(ai + 1) % 3]))
    # the wipe decision at the LAST leaf for shapes no walk can exhaust (total heights up to 200): arithmetic accessor
    arith = arith_groups(ctx, True)[:(4 if quick else 40)]
    return [arith_phase(ctx, "c16", arith),
            {"tag": "c16", "groups": groups, "trace_module": "TraceApi", "trace_cfg": "TraceApi.cfg",
             "space": "5 secret-bearing types x {zeroize, drop in place} x sentinel bytes x 6 hashes; exhaustion histories (wiped key bytes)"}]


REGISTRY["C16"] = {"phases": c16_phases, "level": "other",
                   "design": lambda ctx: [{"module": "SecretLifecycle", "cfg": "SecretLifecycle.cfg", "workers": 2, "xmx": "2g"}],
                   "coverage_extra": lambda ctx, cov: {"explanation":
                       "drop-time wiping is a structural fact about Rust types; it is decided by a memory probe (hook constructs a populated value, "
                       "the harness drops it in place inside zeroed storage and scans the storage) whose events are judged against the thin "
                       "SecretLifecycle.tla table/state machine by TLC; the exhausted-key clause is decided by trace validation of complete "
                       "lifetime walks (callback argument = WipedKey)"}}


# RFC 8554 Appendix F vectors on the specification itself (anchor of the transcription)
def vectors_design(ctx):
    return [{"module": "MC_Vectors", "cfg": "MC_Vectors.cfg", "workers": 8, "xmx": "8g",
             "env": {"VECTORS": os.path.join(vlib.SPEC, "vectors", "rfc8554.ndjson")}}]


for _p in ("C02", "C07", "C01"):
    REGISTRY[_p]["design"] = vectors_design
REGISTRY["C02"]["design"] = lambda ctx: vectors_design(ctx) + sym_design(ctx)
REGISTRY["C02"]["coverage_extra"] = lambda ctx, cov: {"symbolic_model_recombinations": ctx.get("sym_stats")}


def c01_design(ctx):
    runs = vectors_design(ctx)
    runs.append({"module": "MC_Complete", "cfg": "MC_Complete_quick.cfg" if ctx["tier"] == "quick" else "MC_Complete_full.cfg",
                 "workers": 16, "xmx": "12g", "timeout": 3000})
    return runs


REGISTRY["C01"]["design"] = c01_design



# ---- C09: the same calls from many threads and from a fresh process ------------------------------
def c09_parallel_groups(ctx):
    quick = ctx["tier"] == "quick"
    groups = []
    for ai, alg in enumerate(ALGS if not quick else ALGS[::2]):
        ws = [1, 2, 4, 8]
        params = [(ws[ai % 4], 2), (ws[(ai + 1) % 4], 2)]
        other = [(ws[(ai + 2) % 4], 2)]
        name = "c09/par/%s" % alg
        cmds = [cmd_keygen(alg, params, seed_hex(name, alg)),
                cmd_keygen(alg, other, seed_hex(name + "/o", alg), out={"sk": "osk", "pk": "opk"})]
        inner = []
        for i, c in enumerate([0, 3, 4, 15] if quick else [0, 1, 3, 4, 7, 8, 15]):
            m = msg_hex("%s/%d" % (name, i), 10 + i)
            inner.append(cmd_sign(alg, key_at("sk", c), m, out={"sig": "s"}))
            inner.append(cmd_verify(alg, m, slot("s"), slot("pk")))
            inner.append(cmd_sign(alg, key_at("osk", c % 4), m, plan="reject" if i % 3 == 2 else "accept"))
        inner.append(cmd_keygen(alg, params, seed_hex(name, alg), out={"sk": "sk2", "pk": "pk2"}))
        # Seed values that differ only in the bytes BEHIND the seed (a 32-byte array for a shorter hash): same key pair
        for t in range(2):
            kg = cmd_keygen(alg, params, seed_hex(name, alg), out={"sk": "sk3", "pk": "pk3"})
            kg["seed_tail"] = {"rand": 32, "tag": "%s/tail/%d" % (name, t)}
            inner.append(kg)
            inner.append(cmd_sign(alg, key_at("sk3", 5), "7a11", out={"sig": "s3"}))
            inner.append(cmd_verify(alg, "7a11", slot("s3"), slot("pk3")))
        inner.append({"op": "load", "alg": alg, "mem": "m", "key": key_at("sk", 2)})
        inner.append(cmd_sign(alg, None, "c0ffee", api="mem", mem="m"))
        inner.append(cmd_sign(alg, None, "c0ffee", api="mem", mem="m"))
        inner.append(cmd_lifetime(alg, mem="m"))
        # the caller rewrites the bytes of the in-memory object (as_mut_slice): it continues like a key loaded from them
        inner.append({"op": "poke", "alg": alg, "mem": "m", "key": key_at("sk", 9)})
        inner.append(cmd_sign(alg, None, "a5a5", api="mem", mem="m", out={"sig": "s"}))
        inner.append(cmd_verify(alg, "a5a5", slot("s"), slot("pk")))
        inner.append(cmd_lifetime(alg, mem="m"))
        cmds += inner                                        # in the main thread, before
        cmds.append({"op": "threads", "n": 4 if quick else 16, "cmds": inner})
        cmds.append({"op": "subprocess", "cmds": inner})
        cmds += inner                                        # and again afterwards
        groups.append({"name": name, "cmds": cmds, "cost": 2 + 0.02 * len(inner) * 20})
    return groups


def aux_script_groups(ctx, prefix, sids, mem_a):
    """the scripted buffer histories of HssAux.tla (GenAuxWalks_scripts.cfg) for another property's phase"""
    rc, out, st = run_tlc("GenAuxWalks", "GenAuxWalks_scripts.cfg", os.path.join(ctx["workdir"], "meta-auxscripts-" + prefix.replace("/", "_")), workers=4, xmx="4g", timeout=900)
    scripted = tlc_printed(out, "WALK")
    if "Error:" in out or not scripted:
        raise ToolError("GenAuxWalks_scripts failed: " + out[-1500:])
    groups = []
    for si, w in enumerate(scripted):
        if w["sid"] not in sids:
            continue
        alg = ALGS[si % 6]
        groups.append(concretise_aux_walk("%s/%d/%d" % (prefix, w["sid"], si), w["steps"], alg, [(4, 5)] if si % 2 else [(2, 5), (4, 2)], si, mem_a=mem_a))
    return groups


def c09_aux_history_groups(ctx):
    """a key that STAYS in memory (one SigningKey object) against the byte-level function while the caller's aux buffer
    changes owner / is tampered with between the calls: scripted behaviours of HssAux.tla"""
    rc, out, st = run_tlc("GenAuxWalks", "GenAuxWalks_scripts.cfg", os.path.join(ctx["workdir"], "meta-auxscripts9"), workers=4, xmx="4g", timeout=900)
    scripted = tlc_printed(out, "WALK")
    if "Error:" in out or not scripted:
        raise ToolError("GenAuxWalks_scripts failed: " + out[-1500:])
    groups = []
    for si, w in enumerate(scripted):
        if w["sid"] not in (1, 2, 3, 4, 8):
            continue
        alg = ALGS[si % 6]
        groups.append(concretise_aux_walk("c09/auxhist/%d/%d" % (w["sid"], si), w["steps"], alg, [(4, 5)] if si % 2 else [(2, 5), (4, 2)], si, mem_a=True))
    return groups


def c09_mixed_groups(ctx):
    """ONE process, all six hashes, the SAME seed bytes (prefix) and parameter list, interleaved and repeated: nothing a call
    leaves behind (a static table, a cache keyed too coarsely) may reach the next call"""
    groups = []
    for w in ((4,) if ctx["tier"] == "quick" else (1, 2, 4, 8)):
        base = det_bytes("c09/mixed/seed/%d" % w, 32)
        cmds = []
        for rnd in range(2):
            for i, alg in enumerate(ALGS if rnd == 0 else ALGS[::-1]):
                n = N_OF[alg]
                sk, pk = "sk_%s" % alg, "pk_%s" % alg
                cmds.append(cmd_keygen(alg, [(w, 2), (4, 2)], base[:n].hex(), out={"sk": sk, "pk": pk}))
                m = msg_hex("c09/mixed/%d/%d" % (w, i), 14)
                cmds.append(cmd_sign(alg, key_at(sk, 3 + rnd), m, out={"sig": "s"}))
                cmds.append(cmd_verify(alg, m, slot("s"), slot(pk)))
                cmds.append(cmd_lifetime(alg, key=key_at(sk, 3 + rnd)))
        groups.append({"name": "c09/mixed/w%d" % w, "cmds": cmds, "cost": 3.0})
    # eight levels of W1: fine for 16-byte hashes, refused for 32-byte hashes (signature longer than 65535 bytes) - whichever
    # hash the process saw first
    for order in (("sha256_n16", "sha256_n32", "shake256_n16", "shake256_n32"), ("shake256_n32", "sha256_n16", "sha256_n32")):
        cmds = []
        for alg in order:
            cmds.append(cmd_keygen(alg, [(1, 2)] * 8, det_bytes("c09/mixed/8w1", 32)[:N_OF[alg]].hex(), out={"sk": "sk8", "pk": "pk8"}))
            cmds.append({"op": "set", "slot": "s8", "value": ""})
            cmds.append(cmd_sign(alg, key_at("sk8", 5), "0809", out={"sig": "s8"}, light=True))
            cmds.append(cmd_lifetime(alg, key=key_at("sk8", 5)))
        groups.append({"name": "c09/mixed/8xw1/%s" % order[0], "cmds": cmds, "cost": 2.0})
    return groups


def c09_fast_verify_phase(ctx):
    groups = []
    for ai, alg in enumerate(ALGS if ctx["tier"] != "quick" else ALGS[1::3]):
        name = "c09/fv/%s" % alg
        cmds = [cmd_keygen(alg, [(4, 2), (2, 2)], seed_hex(name, alg))]
        for rnd in range(2):
            for mlen in (3, 40, 56, 57, 200):
                m = msg_hex("%s/%d" % (name, mlen), mlen)
                cmds.append(cmd_sign(alg, key_at("sk", 6), m, out={"sig": "s"}))
                cmds.append(cmd_verify(alg, m, slot("s"), slot("pk")))
            cmds.append({"op": "load", "alg": alg, "mem": "m", "key": key_at("sk", 6)})
            cmds.append(cmd_sign(alg, None, msg_hex("%s/%d" % (name, 3), 3), api="mem", mem="m"))
        groups.append({"name": name, "cmds": cmds, "cost": 3.0})
    return {"tag": "c09-fast-verify-build", "variant": fv_variant(4, 64), "groups": groups, "controls": False,
            "space": "fast_verify build: the ordinary sign / try_sign entry points stay functions of (key bytes, message), short and long messages"}


def c09_phases(ctx):
    ph = api_phases(ctx, "c09")
    ph.append(c09_fast_verify_phase(ctx))
    ph[0]["groups"] += c09_mixed_groups(ctx)
    ph[0]["groups"] += c09_parallel_groups(ctx)
    ph[0]["groups"] += c09_aux_history_groups(ctx)
    ph[0]["space"] += "; the same keygen/sign/verify/lifetime calls from the main thread, 4-16 concurrent threads and a fresh child process"
    return ph


REGISTRY["C09"]["phases"] = c09_phases


# ---- C05 also owns the pure accounting arithmetic for tall multi-level shapes (hook, no trees) ------
def arith_phase(ctx, tag, groups):
    """the pure counter arithmetic has no protocol content: its events are judged by the (much cheaper) stateless TraceBytes"""
    return {"tag": tag + "-arith", "groups": groups, "controls": False, "tlc_timeout": 7200,
            "space": "counter / lifetime / successor arithmetic through the accessor for height tuples x boundary counters (MC_Arith!BoundaryCtrs)"}


def c05_phases(ctx):
    ph = api_phases(ctx, "c05")
    ph.append(arith_phase(ctx, "c05", arith_groups(ctx, ctx["tier"] == "quick")))
    return ph


def c05_design(ctx):
    return api_design(ctx, ["MC_Api_neg_noadvance.cfg"]) + c13_design(ctx)[:1]


REGISTRY["C05"]["phases"] = c05_phases
REGISTRY["C05"]["design"] = c05_design


def c03_phases(ctx):
    ph = api_phases(ctx, "c03")
    ph.append(arith_phase(ctx, "c03", arith_groups(ctx, True)[:(6 if ctx["tier"] == "quick" else 60)]))
    return ph


def c03_phases_with_sign_mut(ctx):
    ph = c03_phases(ctx)
    if True:
        groups = []
        for ai, alg in enumerate(ALGS if ctx["tier"] != "quick" else ALGS[1::3]):
            n = N_OF[alg]
            name = "c03/signmut/%s" % alg
            params = [(4, 2), ([2, 4, 8, 1][ai % 4], 2)]
            cmds = [dict(cmd_keygen(alg, params, seed_hex(name, alg), out={"sk": "store_k1", "pk": "pk_k1"}), k="k1")]
            # consecutive sign_mut calls share the upper-level one-time key: it must sign the SAME content every time
            for c in (0, 1, 2, 3, 4, 5):
                m = {"cat": [msg_hex("%s/%d" % (name, c), 17), {"rep": n, "byte": 0}]}
                cm = cmd_sign_mut(alg, key_at("store_k1", c), m, out={"sig": "sig", "msg_out": "mo"})
                cm["k"] = "k1"
                cmds.append(cm)
                cmds.append(cmd_verify(alg, slot("mo"), slot("sig"), slot("pk_k1")))
            groups.append({"name": name, "cmds": cmds, "cost": 3.0})
        ph.append({"tag": "c03-sign-mut", "variant": fv_variant(2, 64), "groups": groups, "controls": False,
                   "trace_module": "TraceApi", "trace_cfg": "TraceApi.cfg",
                   "space": "fast_verify build: sign_mut calls that share upper-level one-time keys (NoReuse over (I, q) -> (C, content))"})
    return ph


REGISTRY["C03"]["phases"] = c03_phases_with_sign_mut


# ---- the repository's command line example (lms-demo): file conventions, validated by the same judges ------
def demo_phase(ctx, tag):
    import democli
    return {"tag": tag + "-lms-demo-cli", "groups": democli.demo_groups(ctx["tier"] == "quick"), "controls": False,
            "space": "examples/lms-demo.rs driven through files: genkey (aux file shrunk and MACed), complete lifetime of sign (key file "
                     "advanced through the callback, signature file), verify, tampered message, refusal after exhaustion"}


def c08_phases_with_demo(ctx):
    ph = c08_phases(ctx)
    if ctx["tier"] != "quick":
        ph.append(demo_phase(ctx, "c08"))
    return ph


def c04_phases_with_demo(ctx):
    ph = api_phases(ctx, "c04")
    if ctx["tier"] != "quick":
        ph.append(demo_phase(ctx, "c04"))
    return ph


REGISTRY["C08"]["phases"] = c08_phases_with_demo
REGISTRY["C04"]["phases"] = c04_phases_with_demo



# ---- C11: lifetime queries on well-formed keys with tall parameter lists must not fail arithmetically ------
def c11_phases_with_arith(ctx):
    ph = c11_phases(ctx)
    ph[0]["groups"] += arith_groups(ctx, True)[:12 if ctx["tier"] == "quick" else None]
    ph[0]["space"] += "; counter/lifetime arithmetic for tall parameter lists through the hook"
    return ph


REGISTRY["C11"]["phases"] = c11_phases_with_arith


# ---- the repository's own test suite, recorded by the call-tracing hook and judged by TLC ------------------
def repo_tests_phase(ctx, tag, features=()):
    import repotests
    return {"tag": tag + "-repo-test-suite", "groups": repotests.groups(ctx, features), "controls": False,
            "space": "every keygen / sign / verify call the repository's own test suite makes (cargo test with --cfg hbs_lms_verif and "
                     "HBS_LMS_VERIF_TRACE), judged byte for byte by TraceBytes"}


def _with_repo_tests(prop, always):
    inner = REGISTRY[prop]["phases"]

    def phases(ctx):
        ph = inner(ctx)
        if always or ctx["tier"] != "quick":
            ph.append(repo_tests_phase(ctx, prop.lower()))
        return ph
    REGISTRY[prop]["phases"] = phases
    prev = REGISTRY[prop].get("coverage_extra")
    REGISTRY[prop]["coverage_extra"] = (lambda ctx, cov: dict((prev(ctx, cov) if prev else {}) or {}, repo_test_suite_recorded=ctx.get("repo_tests")))


def _c07_with_aux_histories():
    inner = REGISTRY["C07"]["phases"]

    def phases(ctx):
        ph = inner(ctx)
        ph[0]["groups"] += aux_script_groups(ctx, "c07/auxhist", (1, 3, 4, 5), False)
        ph[0]["groups"] += high_checksum_groups(ctx)
        ph[0]["space"] += "; signatures made while an aux buffer goes through the scripted histories of HssAux.tla"
        return ph
    REGISTRY["C07"]["phases"] = phases


_c07_with_aux_histories()
_with_repo_tests("C07", True)      # byte-exact signatures: every signature the suite produces
_with_repo_tests("C08", False)
_with_repo_tests("C01", False)
_with_repo_tests("C02", False)

