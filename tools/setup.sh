#!/bin/sh
# MANIFEST.setup_cmd: build the framework from files on disk only (offline).
set -e
cd "$(dirname "$0")/.."
mkdir -p work evidence replays
( cd spec && javac -cp /opt/veriftools/tla/tla2tools.jar HashPrim.java )
export CARGO_NET_OFFLINE=true
( cd harness && CARGO_TARGET_DIR=../work/target-default cargo build --release --offline --quiet )
python3 - <<'PY'
import sys
sys.path.insert(0, 'tools')
import vlib
print('primitive self-test inputs:', vlib.selftest_primitives(vlib.os.path.join(vlib.WORK, 'setup-prim')))
PY
echo setup ok
