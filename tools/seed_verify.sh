#!/bin/sh
# Confirm a sub-agent's seeded change in a scratch worktree:  tools/seed_verify.sh <agent-worktree> <name>
# 1. patch applies to /repo HEAD, builds, the repository's own suite passes with it
# 2. the demonstration fails with the change and passes without it
# Copies patch.diff, the demo and meta.json to /verif/seeded/<name>/ when confirmed.
set -u
SRC="$1"; NAME="$2"
SV=/tmp/sv
[ -d "$SV" ] || git -C /repo worktree add -q --detach "$SV" HEAD
cd "$SV" && git checkout -q --detach "$(git -C /repo rev-parse HEAD)" && git checkout -q -- . && git clean -fdq tests src
git apply "$SRC/patch.diff" || { echo "seed_verify: patch does not apply to HEAD"; exit 1; }
echo "--- baseline suite with the change"
cargo test --workspace --no-fail-fast --offline 2>&1 | grep -E "^test result|FAILED|error\[" | head -8
cp "$SRC/tests/demo_break.rs" tests/demo_break.rs
FLAGS=""
grep -q '"demo_needs_cfg": *true' "$SRC/meta.json" && FLAGS="--cfg hbs_lms_verif"
FEAT=""
grep -q "sign_mut" tests/demo_break.rs && FEAT="--features fast_verify"
echo "--- demo WITH the change (must fail)   [RUSTFLAGS=$FLAGS $FEAT]"
RUSTFLAGS="$FLAGS" cargo test --offline $FEAT --test demo_break 2>&1 | grep -E "^test result|panicked|error" | head -5
git apply -R "$SRC/patch.diff"
echo "--- demo WITHOUT the change (must pass)"
RUSTFLAGS="$FLAGS" cargo test --offline $FEAT --test demo_break 2>&1 | grep -E "^test result|panicked|error" | head -5
rm -f tests/demo_break.rs
mkdir -p /verif/seeded/"$NAME"
cp "$SRC/patch.diff" /verif/seeded/"$NAME"/patch.diff
cp "$SRC/tests/demo_break.rs" /verif/seeded/"$NAME"/demo_break.rs
cp "$SRC/meta.json" /verif/seeded/"$NAME"/agent_meta.json
