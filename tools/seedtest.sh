#!/bin/sh
# Run quick checks against a seeded breaking change:  tools/seedtest.sh <seeded-dir-or-patch> <ID> [<ID> ...]
# Applies the patch to /repo's working tree, runs the checks, and ALWAYS undoes it afterwards.
set -u
cd "$(dirname "$0")/.."
P="$1"; shift
[ -d "$P" ] && P="$P/patch.diff"
if ! git -C /repo diff --quiet; then echo "seedtest: /repo has uncommitted changes, refusing"; exit 2; fi
git -C /repo apply "$(realpath "$P")" || { echo "seedtest: patch does not apply"; exit 2; }
trap 'git -C /repo checkout -- . ; git -C /repo clean -fdq src tests 2>/dev/null' EXIT INT TERM
for ID in "$@"; do
  VERIF_NO_EVIDENCE=1 python3 tools/check.py "$ID" --tier "${SEED_TIER:-quick}" > "work/seedtest-$ID.log" 2>&1
  rc=$?
  echo "== $ID exit=$rc  $(grep -c '^VIOLATION' work/seedtest-$ID.log) violation lines; $(grep -m1 '^VIOLATION' work/seedtest-$ID.log | cut -c1-260)"
  grep -E "^TOOL-ERROR" "work/seedtest-$ID.log" | head -2
done
