#!/usr/bin/env python3
"""debug helper: run one property's groups individually and keep the files"""
import sys, os, json
sys.path.insert(0, os.path.dirname(os.path.abspath(__file__)))
import vlib, props
prop, tier = sys.argv[1], sys.argv[2]
sel = sys.argv[3] if len(sys.argv) > 3 else None
ctx = {"prop": prop, "tier": tier, "workdir": os.path.join(vlib.WORK, "dbg"), "seed": vlib.seed_int()}
os.makedirs(ctx["workdir"], exist_ok=True)
phases = props.REGISTRY[prop]["phases"](ctx)
for ph in phases:
    variant = ph.get("variant") or vlib.Variant()
    vlib.build_harness(variant)
    for gi, g in enumerate(ph["groups"]):
        if sel and sel not in g["name"]:
            continue
        try:
            r = vlib.run_shard("dbg", gi, ph["groups"], [gi], variant, ph.get("trace_module", "TraceBytes"), ph.get("trace_cfg", "TraceBytes.cfg"), ctx["workdir"], 900)
            print(g["name"], "events", len(r["events"]), "verdicts", [(v["l"], v["kind"], v.get("exp") if not isinstance(v.get("exp"), dict) else "..", v.get("got") if not isinstance(v.get("got"), dict) else v["got"]) for v in r["verdicts"]][:8])
        except vlib.ToolError as e:
            print(g["name"], "TOOLERROR", str(e)[-600:])
