#!/usr/bin/env python3
"""Infrastructure for the model-based verification of hbs-lms (see DESIGN.md section 5).

Nothing in here knows an expected value: scenarios go to the Rust harness, its recorded events go
to TLC, and TLC's verdict records come back.  Python only moves files, shards work, filters the
verdicts against KNOWN_FINDINGS.json and writes evidence/replay files.
"""
import hashlib
import json
import os
import shutil
import subprocess
import sys
import time
from concurrent.futures import ThreadPoolExecutor

ROOT = os.path.dirname(os.path.dirname(os.path.abspath(__file__)))
SPEC = os.path.join(ROOT, "spec")
HARNESS = os.path.join(ROOT, "harness")
WORK = os.path.join(ROOT, "work")
REPLAYS = os.path.join(ROOT, "replays")
EVIDENCE = os.path.join(ROOT, "evidence")
TLA_CP = "/opt/veriftools/tla/tla2tools.jar:/opt/veriftools/tla/CommunityModules-deps.jar:" + SPEC
NCPU = os.cpu_count() or 4

ALGS = ["sha256_n32", "sha256_n24", "sha256_n16", "shake256_n32", "shake256_n24", "shake256_n16"]
N_OF = {a: int(a.split("_n")[1]) for a in ALGS}
WT = {1: 1, 2: 2, 4: 3, 8: 4}
HT = {2: 1, 5: 5, 10: 6, 15: 7, 20: 8, 25: 9}


class ToolError(Exception):
    """Our own machinery failed (exit 2) - never reported as a violation."""


def log(*a):
    print(*a, flush=True)


def seed_int():
    try:
        return int(os.environ.get("VERIF_SEED", "0"))
    except ValueError:
        return 0


def det_bytes(tag, n):
    """deterministic bytes from VERIF_SEED and a tag"""
    out = b""
    i = 0
    while len(out) < n:
        out += hashlib.sha256(("%d/%s/%d" % (seed_int(), tag, i)).encode()).digest()
        i += 1
    return out[:n]


def det_int(tag, mod):
    return int.from_bytes(det_bytes(tag, 8), "big") % mod


# ------------------------------------------------------------------------------------------------
# building
# ------------------------------------------------------------------------------------------------
class Variant:
    """one build of the harness (features + HBS_LMS_* environment)"""

    def __init__(self, name="default", features=(), env=None):
        self.name = name
        self.features = tuple(features)
        self.env = dict(env or {})

    @property
    def target_dir(self):
        # variants that differ only in HBS_LMS_* environment share one target directory (cargo rebuilds
        # just hbs-lms and the harness); the binary is copied aside after every build
        fam = "default" if not self.features else "-".join(self.features)
        return os.path.join(WORK, "target-" + fam)

    @property
    def binary(self):
        if os.environ.get("VERIF_REPO") or os.environ.get("VP_RUN_REPO"):
            # built against a snapshot / scratch copy of the repository: never in the place of the real build's binary
            return os.path.join(WORK, "bin-alt", "verif-harness-" + self.name)
        if self.name == "default":
            return os.path.join(self.target_dir, "release", "verif-harness")
        return os.path.join(WORK, "bin", "verif-harness-" + self.name)

    def describe(self):
        return {"name": self.name, "features": list(self.features), "env": self.env}


def build_harness(variant=None, timeout=1500):
    variant = variant or Variant()
    os.makedirs(WORK, exist_ok=True)
    env = dict(os.environ)
    env.update(variant.env)
    env["CARGO_NET_OFFLINE"] = "true"
    env["CARGO_TARGET_DIR"] = variant.target_dir
    cmd = ["cargo", "build", "--release", "--offline", "--quiet"]
    if variant.features:
        cmd += ["--features", ",".join(variant.features)]
    t0 = time.time()
    hdir = HARNESS
    alt = os.environ.get("VERIF_REPO") or os.environ.get("VP_RUN_REPO")
    if alt:
        # background runs (vp run --with-repo) and experiments build against a snapshot / scratch copy of the
        # repository instead of /repo itself; the registered commands never set these variables
        hdir = os.path.join(WORK, "harness-alt")
        shutil.rmtree(hdir, ignore_errors=True)
        shutil.copytree(HARNESS, hdir, ignore=shutil.ignore_patterns("target"))
        ct = open(os.path.join(hdir, "Cargo.toml")).read().replace('path = "/repo"', 'path = "%s"' % alt)
        open(os.path.join(hdir, "Cargo.toml"), "w").write(ct)
        env["CARGO_TARGET_DIR"] = variant.target_dir + "-alt"
    p = subprocess.run(cmd, cwd=hdir, env=env, stdout=subprocess.PIPE, stderr=subprocess.STDOUT, timeout=timeout)
    if p.returncode != 0:
        sys.stdout.write(p.stdout.decode(errors="replace")[-4000:])
        raise ToolError("harness build failed for variant %s" % variant.name)
    built = os.path.join(env["CARGO_TARGET_DIR"], "release", "verif-harness")
    if variant.binary != built:
        os.makedirs(os.path.dirname(variant.binary), exist_ok=True)
        shutil.copy2(built, variant.binary)
    return time.time() - t0


# ------------------------------------------------------------------------------------------------
# TLC
# ------------------------------------------------------------------------------------------------
def ensure_classes():
    cls = os.path.join(SPEC, "HashPrim.class")
    src = os.path.join(SPEC, "HashPrim.java")
    if not os.path.exists(cls) or os.path.getmtime(cls) < os.path.getmtime(src):
        p = subprocess.run(["javac", "-cp", "/opt/veriftools/tla/tla2tools.jar", "HashPrim.java"], cwd=SPEC,
                           stdout=subprocess.PIPE, stderr=subprocess.STDOUT)
        if p.returncode != 0:
            raise ToolError("javac failed: " + p.stdout.decode())


def run_tlc(module, cfg, metadir, env=None, workers=1, xmx="3g", timeout=1800, extra=(), deque=False):
    """run TLC on spec/<module>.tla with spec/<cfg>; returns (rc, output, stats)"""
    ensure_classes()
    os.makedirs(metadir, exist_ok=True)
    e = dict(os.environ)
    e.update(env or {})
    jvm = ["java", "-XX:+UseParallelGC", "-Xss1g", "-Xmx" + xmx]
    if deque:
        jvm.append("-Dtlc2.tool.queue.IStateQueue=StateDeque")
    cmd = jvm + ["-cp", TLA_CP, "tlc2.TLC", "-workers", str(workers), "-metadir", metadir, "-noGenerateSpecTE",
                 "-config", os.path.join(SPEC, cfg)] + list(extra) + [os.path.join(SPEC, module + ".tla")]
    try:
        p = subprocess.run(cmd, cwd=SPEC, env=e, stdout=subprocess.PIPE, stderr=subprocess.STDOUT, timeout=timeout)
    except subprocess.TimeoutExpired:
        raise ToolError("TLC timeout on %s/%s after %ds" % (module, cfg, timeout))
    out = p.stdout.decode(errors="replace")
    shutil.rmtree(metadir, ignore_errors=True)
    return p.returncode, out, tlc_stats(out)


def run_apalache(module, args, outdir, timeout=900):
    """apalache-mc check <args> spec/apalache/<module>.tla ; returns (outcome, output): outcome is "NoError" | "Error" | "other" """
    shutil.rmtree(outdir, ignore_errors=True)
    cmd = ["apalache-mc", "check"] + list(args) + ["--out-dir=" + outdir, os.path.join(SPEC, "apalache", module + ".tla")]
    try:
        p = subprocess.run(cmd, cwd=os.path.join(SPEC, "apalache"), stdout=subprocess.PIPE, stderr=subprocess.STDOUT, timeout=timeout)
    except subprocess.TimeoutExpired:
        raise ToolError("Apalache timeout on %s %s after %ds" % (module, " ".join(args), timeout))
    out = p.stdout.decode(errors="replace")
    shutil.rmtree(outdir, ignore_errors=True)
    outcome = "NoError" if "The outcome is: NoError" in out else ("Error" if "The outcome is: Error" in out else "other")
    return outcome, out


def tlc_stats(out):
    st = {"states": 0, "distinct": 0, "depth": 0}
    for line in out.splitlines():
        if "states generated," in line and "distinct states found" in line:
            w = line.replace(",", "").split()
            try:
                st["states"] = int(w[0])
                st["distinct"] = int(w[3])
            except (ValueError, IndexError):
                pass
        if line.startswith("The depth of the complete state graph search is"):
            try:
                st["depth"] = int(line.rstrip(".").split()[-1])
            except ValueError:
                pass
    return st


def tlc_printed(out, tag):
    """values printed by PrintT(<<tag, "json string">>) -> list of parsed JSON"""
    res = []
    lines = out.splitlines()
    i = 0
    while i < len(lines):
        line = lines[i]
        if line.startswith('<<"%s"' % tag) or line.startswith('<< "%s"' % tag):
            buf = line
            while not buf.rstrip().endswith(">>") and i + 1 < len(lines):
                i += 1
                buf += lines[i]
            # the payload is the last TLA+ string in the tuple
            first = buf.index('"', buf.index(tag) + len(tag) + 1)
            last = buf.rindex('"')
            payload = buf[first + 1:last]
            payload = payload.replace('\\"', '"').replace("\\\\", "\\")
            res.append(json.loads(payload))
        i += 1
    return res


# ------------------------------------------------------------------------------------------------
# primitive self test: HashPrim.java against hashlib
# ------------------------------------------------------------------------------------------------
def selftest_primitives(workdir):
    os.makedirs(workdir, exist_ok=True)
    lens = sorted(set(list(range(0, 70)) + [111, 112, 119, 120, 127, 128, 135, 136, 137, 200, 271, 272, 273, 300]))
    inputs = [det_bytes("prim/%d" % n, n) for n in lens] + [b"abc", b""]
    path = os.path.join(workdir, "prim_in.ndjson")
    with open(path, "w") as f:
        for b in inputs:
            f.write(json.dumps({"hex": b.hex()}) + "\n")
    outp = os.path.join(workdir, "prim_out.ndjson")
    rc, out, _ = run_tlc("MC_Prim", "MC_Prim.cfg", os.path.join(workdir, "meta-prim"),
                         env={"PRIM_IN": path, "PRIM_OUT": outp}, timeout=300)
    if rc != 0 or not os.path.exists(outp):
        sys.stdout.write(out[-3000:])
        raise ToolError("primitive self-test: TLC failed")
    got = [json.loads(x) for x in open(outp)]
    if len(got) != len(inputs):
        raise ToolError("primitive self-test: wrong number of results")
    for b, g in zip(inputs, got):
        if g["sha256"] != hashlib.sha256(b).hexdigest():
            raise ToolError("primitive self-test: SHA256 override disagrees with hashlib on %s" % b.hex())
        for n in (16, 24, 32):
            if g["shake%d" % n] != hashlib.shake_256(b).hexdigest(n):
                raise ToolError("primitive self-test: SHAKE256 override disagrees with hashlib on %s" % b.hex())
    # the overrides against the PURE TLA+ definitions (Sha256Pure.tla, KeccakPure.tla): the Java code is an
    # optimisation of something the specification states
    rc, out, _ = run_tlc("MC_PrimPure", "MC_PrimPure.cfg", os.path.join(workdir, "meta-primpure"), timeout=600)
    if rc != 0 or "Error" in out or "pure SHA-256 agrees" not in out or "pure SHAKE256 agrees" not in out:
        sys.stdout.write(out[-3000:])
        raise ToolError("primitive self-test: the overrides disagree with the pure TLA+ definitions (or TLC failed)")
    return len(inputs)


# ------------------------------------------------------------------------------------------------
# scenario groups -> harness -> TLC, sharded
# ------------------------------------------------------------------------------------------------
def limits_env(variant):
    """the build-time limits of a harness variant, handed to the trace specification (TraceBytes!Env*)"""
    env = {}
    e = variant.env if variant else {}
    if "HBS_LMS_MAX_ALLOWED_HSS_LEVELS" in e:
        env["LIM_LEVELS"] = e["HBS_LMS_MAX_ALLOWED_HSS_LEVELS"].strip()
    for key, pre in (("HBS_LMS_TREE_HEIGHTS", "LIM_H"), ("HBS_LMS_WINTERNITZ_PARAMETERS", "LIM_W")):
        if key in e:
            for i, v in enumerate(e[key].split(",")):
                env["%s%d" % (pre, i + 1)] = v.strip()
    return env


def shard_groups(groups, nshards):
    """distribute groups (lists of commands) over shards, balancing by estimated cost"""
    shards = [[] for _ in range(nshards)]
    loads = [0.0] * nshards
    order = sorted(range(len(groups)), key=lambda i: -groups[i].get("cost", 1.0))
    for gi in order:
        s = loads.index(min(loads))
        shards[s].append(gi)
        loads[s] += groups[gi].get("cost", 1.0)
    return [sorted(s) for s in shards if s]


def run_shard(tag, idx, groups, gidx, variant, trace_module, trace_cfg, workdir, tlc_timeout, harness_timeout=1500):
    """run harness + TLC for the groups with indices gidx; returns dict"""
    sdir = os.path.join(workdir, "%s-shard%02d" % (tag, idx))
    shutil.rmtree(sdir, ignore_errors=True)
    os.makedirs(sdir)
    scen = os.path.join(sdir, "scenario.ndjson")
    trace = os.path.join(sdir, "trace.ndjson")
    prerecorded = all("events" in groups[gi] for gi in gidx)
    t0 = time.time()
    if prerecorded:
        # groups recorded by another recorder (e.g. the lms-demo command line program): events as they are
        with open(trace, "w") as f:
            for gi in gidx:
                f.write(json.dumps({"ev": "reset", "meta": {"group": gi, "name": groups[gi].get("name", "")}}) + "\n")
                for e in groups[gi]["events"]:
                    f.write(json.dumps(e) + "\n")
    else:
        with open(scen, "w") as f:
            for gi in gidx:
                g = groups[gi]
                f.write(json.dumps({"op": "reset", "meta": {"group": gi, "name": g.get("name", "")}}) + "\n")
                for c in g["cmds"]:
                    f.write(json.dumps(c) + "\n")
        env = dict(os.environ)
        env["VERIF_SEED"] = str(seed_int())
        try:
            p = subprocess.run([variant.binary, scen, trace, str(seed_int())], env=env, stdout=subprocess.PIPE,
                               stderr=subprocess.STDOUT, timeout=harness_timeout)
        except subprocess.TimeoutExpired:
            raise ToolError("harness timeout in shard %d" % idx)
        if p.returncode not in (0, 3):
            raise ToolError("harness failed in shard %d: %s" % (idx, p.stdout.decode(errors="replace")[-2000:]))
    t_h = time.time() - t0
    events = [json.loads(x) for x in open(trace)]
    # map events to groups through the reset markers
    ev_group = []
    cur = None
    for e in events:
        if e.get("ev") == "reset":
            cur = e.get("meta", {}).get("group")
        ev_group.append(cur)
    verdict = os.path.join(sdir, "verdict.ndjson")
    t0 = time.time()
    tenv = {"TRACE": trace, "VERDICT": verdict}
    tenv.update(limits_env(variant))
    rc, out, st = run_tlc(trace_module, trace_cfg, os.path.join(sdir, "meta"), env=tenv, timeout=tlc_timeout)
    t_t = time.time() - t0
    if not os.path.exists(verdict):
        sys.stdout.write(out[-6000:])
        raise ToolError("trace validation did not finish in shard %d (TLC rc=%d)" % (idx, rc))
    verdicts = [json.loads(x) for x in open(verdict)]
    done = [v for v in verdicts if v.get("kind") == "done"]
    if not done or done[0]["consumed"] != done[0]["total"] or done[0]["total"] != len(events):
        raise ToolError("trace validation consumed %s of %d events in shard %d" % (done, len(events), idx))
    vs = [v for v in verdicts if v.get("kind") != "done"]
    for v in vs:
        e = events[v["l"] - 1]
        v["event"] = e
        v["group"] = ev_group[v["l"] - 1]
    return {"idx": idx, "events": events, "ev_group": ev_group, "verdicts": vs, "stats": st, "t_harness": t_h,
            "t_tlc": t_t, "dir": sdir}


def run_groups(tag, groups, variant, workdir, trace_module="TraceBytes", trace_cfg="TraceBytes.cfg", nshards=None,
               tlc_timeout=2400):
    """returns (verdicts, summary)"""
    if not groups:
        return [], {"events": 0, "groups": 0, "states": 0, "distinct": 0, "samples": []}
    nshards = nshards or min(NCPU, len(groups))
    shards = shard_groups(groups, nshards)
    results = []
    with ThreadPoolExecutor(max_workers=len(shards)) as ex:
        futs = [ex.submit(run_shard, tag, i, groups, gidx, variant, trace_module, trace_cfg, workdir, tlc_timeout)
                for i, gidx in enumerate(shards)]
        for f in futs:
            results.append(f.result())
    verdicts = []
    summary = {"events": 0, "groups": len(groups), "states": 0, "distinct": 0, "samples": [], "t_harness": 0.0,
               "t_tlc": 0.0, "event_kinds": {}}
    for r in results:
        verdicts += r["verdicts"]
        summary["events"] += len(r["events"])
        summary["states"] += r["stats"]["states"]
        summary["distinct"] += r["stats"]["distinct"]
        summary["t_harness"] = max(summary["t_harness"], r["t_harness"])
        summary["t_tlc"] = max(summary["t_tlc"], r["t_tlc"])
        for e in r["events"]:
            k = e.get("ev", "?") + ("/" + e["hook"] if e.get("ev") == "hook" else "")
            summary["event_kinds"][k] = summary["event_kinds"].get(k, 0) + 1
        if len(summary["samples"]) < 3:
            for e in r["events"]:
                if e.get("ev") not in ("reset", "info"):
                    summary["samples"].append(shorten(e))
                    break
    summary["results"] = results
    return verdicts, summary


def shorten(e, lim=96):
    out = {}
    for k, v in e.items():
        if isinstance(v, str) and len(v) > lim:
            out[k] = v[:lim] + "...(%d hex chars)" % len(v)
        elif isinstance(v, list) and len(json.dumps(v)) > 4 * lim:
            out[k] = "list(%d)" % len(v)
        else:
            out[k] = v
    return out


# ------------------------------------------------------------------------------------------------
# known findings, violations, evidence
# ------------------------------------------------------------------------------------------------
def load_known():
    p = os.path.join(ROOT, "KNOWN_FINDINGS.json")
    if not os.path.exists(p):
        return []
    return json.load(open(p))["findings"]


def verdict_key(v):
    """the structured key a verdict is matched with (no raw bytes)"""
    e = v.get("event", {})
    k = {"kind": v.get("kind")}
    for f in ("n", "w", "type_name", "how"):
        if f in v:
            k[f] = v[f]
    if v.get("kind") in ("ots_ls", "ots_p", "ots_n", "ots_w", "ls_deviation_in_use"):
        k["exp"] = v.get("exp")
        k["got"] = v.get("got")
    meta = e.get("meta") or {}
    if "class" in meta:
        k["class"] = meta["class"]
    if "alg" in e:
        k["alg"] = e["alg"]
    return k


def match_known(prop, v, known):
    key = verdict_key(v)
    for f in known:
        if f.get("status") != "known" or prop not in f.get("properties", [f.get("property")]):
            continue
        m = f["match"]
        if all(key.get(a) == b for a, b in m.items()):
            return f
    return None


def write_replay(prop, tier, k, v, groups, extra=None):
    rdir = os.path.join(WORK, "replays-seedtest") if os.environ.get("VERIF_NO_EVIDENCE") else REPLAYS
    os.makedirs(rdir, exist_ok=True)
    path = os.path.join(rdir, "%s-%s-%d.json" % (prop, tier, k))
    g = groups[v["group"]] if v.get("group") is not None and v["group"] < len(groups) else None
    rec = {"property": prop, "tier": tier, "seed": seed_int(), "verdict": {a: b for a, b in v.items() if a != "event"},
           "event": v.get("event"), "group": g, "spec": "TraceBytes",
           "cmd": "python3 tools/check.py %s --replay %s" % (prop, path)}
    if extra:
        rec.update(extra)
    with open(path, "w") as f:
        json.dump(rec, f, indent=1)
    return path


def write_evidence(prop, tier, level, coverage, assumptions, wall, violations):
    os.makedirs(EVIDENCE, exist_ok=True)
    ev = {"property_id": prop, "tier": tier, "seed": seed_int(), "level": level, "coverage": coverage,
          "assumptions": assumptions, "wall_s": round(wall, 2), "violations": violations}
    with open(os.path.join(EVIDENCE, prop + ".json"), "w") as f:
        json.dump(ev, f, indent=1, default=str)
