#!/bin/sh
# Run the quick checks against a list of seeded changes, one after the other:
#   tools/triage.sh <list-file>       lines: <seeded-dir-name> <ID> [<ID> ...]
# Each patch is applied to /repo's working tree, the checks are run, the patch is undone (tools/seedtest.sh).
# Meant for `vp run -- sh tools/triage.sh ...` (a snapshot of /verif runs it while /verif is being edited); nothing
# else may touch /repo while it runs.
set -u
cd "$(dirname "$0")/.."
[ -f spec/HashPrim.class ] || sh tools/setup.sh >/dev/null 2>&1
mkdir -p work
while read name ids; do
  [ -z "$name" ] && continue
  echo "##### $name  ($ids)"
  sh tools/seedtest.sh /verif/seeded/$name $ids
done < "$1"
echo "##### triage done"
