#!/bin/sh
# Like tools/seedtest.sh, but WITHOUT touching /repo's working tree: the patch is applied to a scratch worktree of /repo
# and the checks build against that copy (VERIF_REPO).   tools/seedtest_copy.sh <seeded-dir-or-patch> <ID> [<ID> ...]
set -u
cd "$(dirname "$0")/.."
P="$1"; shift
[ -d "$P" ] && P="$P/patch.diff"
P="$(realpath "$P")"
D=/tmp/seedrepo-$$
git -C /repo worktree add -q --detach "$D" HEAD || exit 2
trap 'git -C /repo worktree remove --force "$D" 2>/dev/null; git -C /repo worktree prune' EXIT INT TERM
( cd "$D" && git apply "$P" ) || { echo "seedtest_copy: patch does not apply"; exit 2; }
for ID in "$@"; do
  VERIF_REPO="$D" VERIF_NO_EVIDENCE=1 python3 tools/check.py "$ID" --tier "${SEED_TIER:-quick}" > "work/seedtest-$ID.log" 2>&1
  rc=$?
  echo "== $ID exit=$rc  $(grep -c '^VIOLATION' work/seedtest-$ID.log) violation lines; $(grep -m1 '^VIOLATION' work/seedtest-$ID.log | cut -c1-260)"
  grep -E "^TOOL-ERROR" "work/seedtest-$ID.log" | head -2
done
