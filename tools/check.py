#!/usr/bin/env python3
"""Entry point registered in MANIFEST.json:  tools/check.py <ID> --tier quick|thorough [--replay file]

exit 0  the property held on everything explored (KNOWN-FINDING lines possible)
exit 1  at least one "VIOLATION property=<id> replay=<path>" line
exit 2  tool error / timeout (never silently 0)
"""
import argparse
import json
import os
import shutil
import sys
import time
import traceback

sys.path.insert(0, os.path.dirname(os.path.abspath(__file__)))
import vlib  # noqa: E402
from vlib import ToolError, log  # noqa: E402
import props  # noqa: E402


def negative_control_corrupt(prop, ctx, summary, variant, trace_module, trace_cfg, workdir):
    """Corrupt one recorded output field of one event of an accepted trace and require TLC to reject
    exactly that event.  Returns a dict describing the control; raises ToolError if it is accepted."""
    pick = None
    for r in summary.get("results", []):
        bad_l = {v["l"] for v in r["verdicts"]}
        for i, e in enumerate(r["events"]):
            if (i + 1) in bad_l:
                continue
            for field in props.CORRUPTIBLE.get(e.get("ev"), []):
                val = e.get(field)
                if isinstance(val, str) and len(val) >= 8 and e.get("res", "ok") == "ok":
                    pick = (r, i, field)
                    break
            if pick:
                break
        if pick:
            break
    if not pick:
        return {"control": "corrupt_field", "ran": False}
    r, i, field = pick
    e = dict(r["events"][i])
    v = e[field]
    pos = len(v) // 2
    e[field] = v[:pos] + ("0" if v[pos] != "0" else "1") + v[pos + 1:]
    cdir = os.path.join(workdir, "negctl")
    shutil.rmtree(cdir, ignore_errors=True)
    os.makedirs(cdir)
    trace = os.path.join(cdir, "trace.ndjson")
    # the group's events up to and including the corrupted one (the tree cache needs the prefix)
    g = r["ev_group"][i]
    idxs = [j for j in range(i + 1) if r["ev_group"][j] == g]
    with open(trace, "w") as f:
        for j in idxs[:-1]:
            f.write(json.dumps(r["events"][j]) + "\n")
        f.write(json.dumps(e) + "\n")
    verdict = os.path.join(cdir, "verdict.ndjson")
    rc, out, st = vlib.run_tlc(trace_module, trace_cfg, os.path.join(cdir, "meta"),
                               env={"TRACE": trace, "VERDICT": verdict}, timeout=900)
    if not os.path.exists(verdict):
        raise ToolError("negative control: TLC did not finish: " + out[-1500:])
    vs = [json.loads(x) for x in open(verdict)]
    hit = [x for x in vs if x.get("l") == len(idxs)]
    if not hit:
        raise ToolError("negative control FAILED: a corrupted %s.%s was accepted by the trace specification" % (e.get("ev"), field))
    return {"control": "corrupt_field", "ran": True, "event": e.get("ev"), "field": field, "rejected_as": hit[0].get("kind")}


def negative_control_spec(prop, ctx, summary, trace_module, neg_cfgs, workdir):
    """Validate a correct recorded trace against deliberately wrong variants of the specification; each
    must reject it."""
    out = []
    if not neg_cfgs:
        return out
    src = None
    for r in summary.get("results", []):
        if not r["verdicts"] and any(e.get("ev") in ("sign", "verify", "keygen") for e in r["events"]):
            src = r
            break
    if src is None:
        return out
    # first group of that shard only
    g0 = None
    evs = []
    for e, g in zip(src["events"], src["ev_group"]):
        if g0 is None:
            g0 = g
        if g != g0:
            break
        evs.append(e)
    for cfg in neg_cfgs:
        cdir = os.path.join(workdir, "negspec-" + cfg.replace(".cfg", ""))
        shutil.rmtree(cdir, ignore_errors=True)
        os.makedirs(cdir)
        trace = os.path.join(cdir, "trace.ndjson")
        with open(trace, "w") as f:
            for e in evs:
                f.write(json.dumps(e) + "\n")
        verdict = os.path.join(cdir, "verdict.ndjson")
        rc, o, st = vlib.run_tlc(trace_module, cfg, os.path.join(cdir, "meta"), env={"TRACE": trace, "VERDICT": verdict},
                                 timeout=900)
        if not os.path.exists(verdict):
            raise ToolError("negative spec control %s: TLC did not finish: %s" % (cfg, o[-1500:]))
        vs = [json.loads(x) for x in open(verdict) if json.loads(x).get("kind") != "done"]
        if not vs:
            raise ToolError("negative control FAILED: the mutated specification %s accepts a correct trace" % cfg)
        out.append({"control": "mutated_spec", "cfg": cfg, "rejections": len(vs), "first": vs[0].get("kind")})
    return out


def run_property(prop, tier, replay=None):
    t0 = time.time()
    workdir = os.path.join(vlib.WORK, "%s-%s" % (prop, tier))
    shutil.rmtree(workdir, ignore_errors=True)
    os.makedirs(workdir)
    n_prim = vlib.selftest_primitives(workdir)
    P = props.REGISTRY[prop]
    ctx = {"prop": prop, "tier": tier, "workdir": workdir, "seed": vlib.seed_int()}
    known = vlib.load_known()

    coverage = {"primitive_selftest_inputs": n_prim, "states": 0, "transitions": 0, "traces_validated_against_impl": 0,
                "events_validated": 0, "design_runs": [], "phases": [], "negative_controls": [], "samples": []}
    violations = []      # (verdict-like dict, groups)
    known_hits = {}
    total_groups = 0
    nontrivial = set()

    # ---- design runs: TLC on the specification itself -------------------------------------------
    # development aids (never used by the registered commands): VERIF_SKIP_DESIGN=1 skips the TLC design runs,
    # VERIF_ONLY=<regex> keeps only the scenario groups whose name matches; both imply "no evidence"
    dev_only = os.environ.get("VERIF_ONLY")
    dev_skip_design = bool(os.environ.get("VERIF_SKIP_DESIGN"))
    if dev_only or dev_skip_design:
        os.environ["VERIF_NO_EVIDENCE"] = "1"
    for d in ([] if dev_skip_design else P.get("design", lambda c: [])(ctx)):
        if d.get("engine") == "apalache":
            # symbolic model checker on the typed integer reduction of the protocol model: an inductive invariant
            # (base case, induction step, invariant => safety) for an UNBOUNDED lifetime; negative models must fail
            outcome, out = vlib.run_apalache(d["module"], d["args"], os.path.join(workdir, "apalache-out"), timeout=d.get("timeout", 900))
            want = d.get("expect", "NoError")
            if outcome != want:
                sys.stdout.write(out[-3000:] + "\n")
                raise ToolError("Apalache %s %s: outcome %s, expected %s" % (d["module"], " ".join(d["args"]), outcome, want))
            coverage["design_runs"].append({"engine": "apalache", "module": d["module"], "args": d["args"], "outcome": outcome, "expect": want})
            log("design %-22s %-60s %s" % (d["module"], " ".join(d["args"])[:60], outcome + (" (negative model: as expected)" if want == "Error" else "")))
            continue
        rc, out, st = vlib.run_tlc(d["module"], d["cfg"], os.path.join(workdir, "meta-" + d["cfg"]),
                                   workers=d.get("workers", 8), xmx=d.get("xmx", "8g"), timeout=d.get("timeout", 1500),
                                   extra=d.get("extra", ()), env=d.get("env"))
        rec = {"module": d["module"], "cfg": d["cfg"], "states": st["states"], "distinct": st["distinct"],
               "depth": st["depth"], "expect": d.get("expect", "pass")}
        failed = ("Error:" in out) or rc != 0
        if d.get("expect", "pass") == "pass":
            if failed:
                tail = out[-3000:]
                sys.stdout.write(tail + "\n")
                # a property violated on the specification itself is a defect of the design model,
                # which is ours: tool error, never a VIOLATION of the code
                raise ToolError("design run %s/%s failed" % (d["module"], d["cfg"]))
        else:
            # negative model: TLC MUST find the named invariant violated
            if d["expect"] not in out:
                sys.stdout.write(out[-3000:] + "\n")
                raise ToolError("negative model %s/%s did not produce the expected counterexample (%s)"
                                % (d["module"], d["cfg"], d["expect"]))
            rec["counterexample_found"] = True
        if d.get("post"):
            rec.update(d["post"](out, ctx) or {})
        coverage["design_runs"].append(rec)
        coverage["states"] += st["distinct"]
        coverage["transitions"] += st["states"]
        log("design %-22s %-28s states=%d distinct=%d %s" % (d["module"], d["cfg"], st["states"], st["distinct"],
                                                           "(negative model: counterexample found)" if d.get("expect", "pass") != "pass" else ""))

    # ---- phases: scenarios -> real code -> trace validation --------------------------------------
    phases = P["phases"](ctx) if not replay else props.replay_phases(replay)
    built = set()
    for ph in phases:
        variant = ph.get("variant") or vlib.Variant()
        if variant.name not in built:
            dt = vlib.build_harness(variant)
            built.add(variant.name)
            log("built harness variant %s in %.1fs" % (variant.name, dt))
        groups = ph["groups"]
        if dev_only:
            import re
            groups = [g for g in groups if re.search(dev_only, g["name"])]
            if not groups:
                continue
        tm, tc = ph.get("trace_module", "TraceBytes"), ph.get("trace_cfg", "TraceBytes.cfg")
        verdicts, summary = vlib.run_groups(ph["tag"], groups, variant, workdir, tm, tc, tlc_timeout=ph.get("tlc_timeout", 2400))
        total_groups += len(groups)
        coverage["traces_validated_against_impl"] += len(groups)
        coverage["events_validated"] += summary["events"]
        coverage["states"] += summary["distinct"]
        coverage["transitions"] += summary["states"]
        coverage["phases"].append({"tag": ph["tag"], "variant": variant.name, "groups": len(groups), "events": summary["events"],
                                   "event_kinds": summary.get("event_kinds", {}), "verdicts": len(verdicts),
                                   "t_harness_s": round(summary.get("t_harness", 0), 1), "t_tlc_s": round(summary.get("t_tlc", 0), 1),
                                   "space": ph.get("space")})
        if len(coverage["samples"]) < 6:
            coverage["samples"] += summary["samples"][:2]
        for r in summary.get("results", []):
            for e in r["events"]:
                if e.get("ev") not in ("reset", "info"):
                    nontrivial.add(vlib.hashlib.sha256(json.dumps(e, sort_keys=True).encode()).hexdigest())
        log("phase %-18s variant=%-10s groups=%d events=%d verdicts=%d harness=%.1fs tlc=%.1fs" %
            (ph["tag"], variant.name, len(groups), summary["events"], len(verdicts), summary.get("t_harness", 0), summary.get("t_tlc", 0)))
        flt = ph.get("filter")
        for v in verdicts:
            if flt and not flt(v):
                continue
            # the note "a known-deviating ls value was in use" only matters to the properties about
            # RFC-exact bytes / RFC-exact acceptance
            if v.get("kind") == "ls_deviation_in_use" and prop not in ("C07", "C02"):
                continue
            # the note "a list with signatures longer than 65535 bytes was refused" matters to completeness only
            if v.get("kind") == "long_signature_refused" and prop != "C01":
                continue
            f = vlib.match_known(prop, v, known)
            if f is not None:
                known_hits.setdefault(f["id"], [f, 0])[1] += 1
            else:
                violations.append((v, groups))
        # negative controls on the first phase that produced a clean shard
        if not replay and ph.get("controls", True) and not coverage["negative_controls"]:
            nc = negative_control_corrupt(prop, ctx, summary, variant, tm, tc, workdir)
            if nc.get("ran"):
                coverage["negative_controls"].append(nc)
            coverage["negative_controls"] += negative_control_spec(prop, ctx, summary, tm, ph.get("neg_cfgs", P.get("neg_cfgs", [])), workdir)
        for r in summary.get("results", []):
            shutil.rmtree(r["dir"], ignore_errors=True)
        summary.pop("results", None)

    # ---- report ----------------------------------------------------------------------------------
    for fid, (f, cnt) in sorted(known_hits.items()):
        print("KNOWN-FINDING: property=%s %s [%s, %d matching verdicts]" % (prop, f["what"], fid, cnt))
    rc = 0
    seen = set()
    k = 0
    for v, groups in violations:
        key = json.dumps(vlib.verdict_key(v), sort_keys=True)
        if key in seen and k >= 5:
            continue
        seen.add(key)
        k += 1
        if k > 25:
            break
        path = vlib.write_replay(prop, tier, k, v, groups)
        e = v.get("event", {})
        print("VIOLATION property=%s replay=%s  kind=%s event=%s alg=%s exp=%s got=%s" %
              (prop, path, v.get("kind"), e.get("ev"), e.get("alg"), json.dumps(v.get("exp"))[:120], json.dumps(v.get("got"))[:160]))
        rc = 1
    coverage["distinct_nontrivial"] = len(nontrivial)
    coverage["evaluations"] = coverage["events_validated"]
    coverage["rule"] = ("every event is one call into the real library with all inputs and outputs recorded and judged by TLC "
                        "against the TLA+ reference; an event is counted once per distinct (inputs, outputs) record; all of them "
                        "reach at least one spec guard or hash evaluation")
    coverage["known_findings_matched"] = {fid: cnt for fid, (f, cnt) in known_hits.items()}
    coverage["exhaustive"] = False
    if P.get("coverage_extra"):
        coverage.update(P["coverage_extra"](ctx, coverage) or {})
    if not coverage["samples"]:
        coverage["samples"] = [{"note": "no implementation events in this run"}]
    coverage["states"] = max(coverage["states"], 1)
    coverage["transitions"] = max(coverage["transitions"], 1)
    assumptions = P.get("assumptions", []) + props.COMMON_ASSUMPTIONS
    if not replay and not os.environ.get("VERIF_NO_EVIDENCE"):
        vlib.write_evidence(prop, tier, P.get("level", "model_checking"), coverage, assumptions, time.time() - t0, len(violations))
    log("%s %s: %d groups, %d events, %d violations, %d known-finding matches, %.1fs" %
        (prop, tier, total_groups, coverage["events_validated"], len(violations), sum(c for _, c in known_hits.values()), time.time() - t0))
    shutil.rmtree(workdir, ignore_errors=True)
    return rc


def main():
    ap = argparse.ArgumentParser()
    ap.add_argument("prop")
    ap.add_argument("--tier", default=os.environ.get("VERIF_TIER", "quick"), choices=["quick", "thorough"])
    ap.add_argument("--replay")
    a = ap.parse_args()
    if a.prop not in props.REGISTRY:
        print("unknown property", a.prop)
        sys.exit(2)
    try:
        rc = run_property(a.prop, a.tier, a.replay)
    except ToolError as e:
        print("TOOL-ERROR:", e)
        sys.exit(2)
    except Exception:
        traceback.print_exc()
        print("TOOL-ERROR: unexpected exception")
        sys.exit(2)
    sys.exit(rc)


if __name__ == "__main__":
    main()
