--------------------------------- MODULE Aux ---------------------------------
(***************************************************************************)
(* The auxiliary-data cache of the top-level tree (hash-sigs layout):      *)
(*   level word (u32: 0x80000000 | sum of 2^level over the cached levels)  *)
(*   || the cached tree levels in ascending level order                    *)
(*   || MAC                                                                *)
(* MAC = HMAC-like construction with 64-byte block keyed with              *)
(*   H(0^20 || 0xfd 0xfd || master seed)  over  level word || cached data  *)
(* A buffer whose first byte is zero is "fresh" (to be filled by keygen);  *)
(* any other buffer is only ever read back when its MAC is valid for the   *)
(* seed.  Neither SpecKeygen nor SpecSign takes the buffer as an argument: *)
(* that IS the transparency statement.                                     *)
(***************************************************************************)
EXTENDS Hss

AuxHeader == 4
MinSubtree == 2

(* levels cached for a buffer of maxlen bytes: h, h-2, ... >= 1, greedily *)
RECURSIVE AuxLevelsR(_, _, _)
AuxLevelsR(rem, level, n) ==
    IF level < 1 THEN <<>>
    ELSE IF rem >= n * Pow2(level) THEN <<level>> \o AuxLevelsR(rem - n * Pow2(level), level - MinSubtree, n)
    ELSE AuxLevelsR(rem, level - MinSubtree, n)
AuxLevels(maxlen, h, n) ==
    IF maxlen < AuxHeader + n THEN <<>> ELSE AuxLevelsR(maxlen - AuxHeader - n, h, n)   \* descending

AuxUsedLen(maxlen, h, n) ==
    LET lv == AuxLevels(maxlen, h, n)
    IN  IF Len(lv) = 0 THEN 1
        ELSE AuxHeader + n + SumSeq([i \in 1..Len(lv) |-> n * Pow2(lv[i])])

AuxWord(levels) ==
    LET s == SumSeq([i \in 1..Len(levels) |-> Pow2(levels[i])])
        b == U32(s)
    IN  <<b[1] + 128, b[2], b[3], b[4]>>

(* cached levels, ascending *)
AuxLevelData(tree, level, n) == CatFixed([k \in 1..Pow2(level) |-> tree[Pow2(level) + k - 1]], Pow2(level), n)
AuxData(tree, levelsDesc, n) ==
    LET cnt == Len(levelsDesc)
    IN  Cat([i \in 1..cnt |-> AuxLevelData(tree, levelsDesc[cnt + 1 - i], n)])

AuxMacKey(alg, seed) == H(alg, Zeros(20) \o <<253, 253>> \o seed)
AuxMac(alg, key, data) ==
    LET n == N(alg)
        pad(x) == [i \in 1..BlockSize(alg) |-> IF i <= n THEN XorByte(key[i], x) ELSE x]
        inner == H(alg, pad(54) \o data)
    IN  H(alg, pad(92) \o inner)

(* what keygen leaves in a fresh buffer of maxlen >= 1 bytes (the shrunk slice) *)
SpecAuxAfterKeygen(alg, seed, topTree, h, maxlen) ==
    LET n == N(alg)
        lv == AuxLevels(maxlen, h, n)
    IN  IF Len(lv) = 0 THEN <<0>>
        ELSE LET body == AuxWord(lv) \o AuxData(topTree, lv, n)
             IN  body \o AuxMac(alg, AuxMacKey(alg, seed), body)

IsFreshAux(buf) == Len(buf) >= 1 /\ buf[1] = 0
=============================================================================
