----------------------------- MODULE MC_PrimPure -----------------------------
(* The Java overrides of SHA256 and SHAKE256 against the pure TLA+ definitions of Sha256Pure.tla and *)
(* KeccakPure.tla, on inputs around every padding / rate boundary and on several byte patterns.      *)
EXTENDS Hash, TLC, FiniteSets
P == INSTANCE Sha256Pure
KP == INSTANCE KeccakPure

Lens == {0, 1, 2, 31, 32, 54, 55, 56, 57, 63, 64, 65, 118, 119, 120, 121, 127, 128, 129, 200}
Pattern(k, len) == [i \in 1..len |-> CASE k = 0 -> 0 [] k = 1 -> 255 [] k = 2 -> (i * 37 + len) % 256 [] OTHER -> (i * i + 7 * k) % 256]
Inputs == {Pattern(k, len) : k \in 0..3, len \in Lens}
ASSUME \A b \in Inputs : P!Sha256(b) = SHA256(b)
KLens == {0, 1, 7, 8, 9, 55, 134, 135, 136, 137, 271, 272, 273}
KInputs == {Pattern(k, len) : k \in 0..3, len \in KLens}
ASSUME \A b \in KInputs : \A n \in {16, 24, 32} : KP!Shake256(b, n) = SHAKE256(b, n)
ASSUME PrintT(<<"pure SHAKE256 agrees with the override on", Cardinality(KInputs), "inputs x 3 output lengths">>)
ASSUME PrintT(<<"pure SHA-256 agrees with the override on", Cardinality(Inputs), "inputs">>)
=============================================================================
