-------------------------------- MODULE MC_Ots --------------------------------
(***************************************************************************)
(* C12 on the specification: the Winternitz digit encoding defined by the  *)
(* Appendix-B formulas is RFC-exact and domination-free.                   *)
(*                                                                         *)
(* State machine: one initial state per lemma instance, so that TLC's      *)
(* state count is the number of instances checked:                         *)
(*   kind "set"  : one per (n, w), n in {16,24,32}, w in {1,2,4,8}          *)
(*   kind "cks"  : one per (n, w, attainable checksum value)                *)
(*   kind "dig"  : one per (w, digit position in a byte, byte value)        *)
(*   kind "dom"  : one per (w, one-byte digest Q): no other one-byte digest *)
(*                 dominates or is dominated (scaled instance, exhaustive)  *)
(*   kind "known": the three known-finding parameter sets: with the         *)
(*                 library's ls a dominating pair EXISTS (why it matters)   *)
(* Why the lemmas give domination-freeness for all 2^(8n) digests: if      *)
(* a' >= a componentwise on the u message digits and a' # a there, then    *)
(* sum(2^w-1-a'_i) < sum(2^w-1-a_i); CksmCovered says the v checksum        *)
(* digits are a big-endian encoding of the whole shifted sum (no bit lost, *)
(* none overflowing), so the checksum digits of a' encode a strictly       *)
(* smaller number and some checksum digit of a' is smaller: no domination. *)
(* If a' = a on the message digits the digests are equal.                  *)
(***************************************************************************)
EXTENDS LmOts

VARIABLE inst
Ns == {16, 24, 32}
Ws == {1, 2, 4, 8}

(* RFC 8554 Appendix B, Table: the formulas reproduce the published n = 32 values *)
ASSUME /\ <<U(32, 1), V(32, 1), Ls(32, 1), P(32, 1)>> = <<256, 9, 7, 265>>
       /\ <<U(32, 2), V(32, 2), Ls(32, 2), P(32, 2)>> = <<128, 5, 6, 133>>
       /\ <<U(32, 4), V(32, 4), Ls(32, 4), P(32, 4)>> = <<64, 3, 4, 67>>
       /\ <<U(32, 8), V(32, 8), Ls(32, 8), P(32, 8)>> = <<32, 2, 0, 34>>
(* NIST SP 800-208 Table 1 (n = 24): p and ls *)
ASSUME /\ <<P(24, 1), Ls(24, 1)>> = <<200, 8>> /\ <<P(24, 2), Ls(24, 2)>> = <<101, 6>>
       /\ <<P(24, 4), Ls(24, 4)>> = <<51, 4>>  /\ <<P(24, 8), Ls(24, 8)>> = <<26, 0>>

(* digits of the 2-byte checksum string alone *)
CksmDigitsOf(c, w, ls, v) == LET S == U16((c * Pow2(ls)) % 65536) IN [i \in 1..v |-> Coef(S, i - 1, w)]
RECURSIVE ValueOf(_, _, _)
ValueOf(ds, w, i) == IF i > Len(ds) THEN 0 ELSE ds[i] * Pow2(w * (Len(ds) - i)) + ValueOf(ds, w, i + 1)

(* bit-level definition of digit extraction, independent of Coef's arithmetic *)
BitOfByte(b, k) == (b \div Pow2(7 - k)) % 2              \* k = 0 is the most significant bit
DigitByBits(byte, j, w) ==                               \* j-th w-bit digit inside one byte
    LET F[k \in 0..w] == IF k = w THEN 0 ELSE BitOfByte(byte, j * w + k) * Pow2(w - 1 - k) + F[k + 1]
    IN  F[0]

OneByteDigits(q, w, ls) == DigitsWith(<<q>>, 1, w, ls)

SetInst == {[kind |-> "set", n |-> n, w |-> w] : n \in Ns, w \in Ws}
CksInst == UNION {{[kind |-> "cks", n |-> n, w |-> w, c |-> c] : c \in 0..MaxCksm(n, w)} : n \in Ns, w \in Ws}
DigInst == {[kind |-> "dig", w |-> w, j |-> j, b |-> b] : w \in Ws, j \in 0..7, b \in 0..255}
DomInst == {[kind |-> "dom", w |-> w, q |-> q] : w \in Ws, q \in 0..255}
KnownInst == {[kind |-> "known", n |-> 24, w |-> 1], [kind |-> "known", n |-> 16, w |-> 1], [kind |-> "known", n |-> 16, w |-> 2]}

Init == inst \in SetInst \cup CksInst \cup DigInst \cup DomInst \cup KnownInst
Next == UNCHANGED inst
Spec == Init /\ [][Next]_inst

(* the digest with every message digit maximal except the last one, which is d *)
AllOnesBut(n, w, d) == [i \in 1..n |-> IF i < n THEN 255 ELSE 255 - (Pow2(w) - 1 - d)]

Lemma ==
    CASE inst.kind = "set" ->
            LET n == inst.n w == inst.w IN
            /\ 8 % w = 0 /\ U(n, w) * w = 8 * n
            /\ CksmCoveredWith(n, w, Ls(n, w))
            /\ P(n, w) = U(n, w) + V(n, w)
            /\ Ls(n, w) = 16 - w * V(n, w)
            /\ V(n, w) * w <= 16
      [] inst.kind = "cks" ->
            (* the v checksum digits decode to the whole checksum: nothing lost, nothing overflowing *)
            LET n == inst.n w == inst.w v == V(n, w)
            IN  ValueOf(CksmDigitsOf(inst.c, w, Ls(n, w), v), w, 1) * Pow2(16 - v * w - Ls(n, w)) = inst.c
      [] inst.kind = "dig" ->
            (inst.j < 8 \div inst.w) =>
                /\ Coef(<<inst.b>>, inst.j, inst.w) = DigitByBits(inst.b, inst.j, inst.w)
                /\ Coef(<<0, inst.b, 0>>, (8 \div inst.w) + inst.j, inst.w) = DigitByBits(inst.b, inst.j, inst.w)
      [] inst.kind = "dom" ->
            LET w == inst.w ls == Ls(1, w) a == OneByteDigits(inst.q, w, ls)
            IN  \A q2 \in 0..255 : q2 # inst.q => ~Dominates(OneByteDigits(q2, w, ls), a)
      [] inst.kind = "known" ->
            (* with the library's ls the digest "all ones" dominates "all ones but the last bit":       *)
            (* a signature on the second can be turned into one on the first.  With the formula's ls    *)
            (* the same pair does not dominate.                                                         *)
            LET n == inst.n w == inst.w
                hi == AllOnesBut(n, w, Pow2(w) - 1)
                lo == AllOnesBut(n, w, Pow2(w) - 2)
            IN  /\ Dominates(DigitsWith(hi, n, w, LsWithKnownFindings(n, w)), DigitsWith(lo, n, w, LsWithKnownFindings(n, w)))
                /\ ~Dominates(DigitsWith(hi, n, w, Ls(n, w)), DigitsWith(lo, n, w, Ls(n, w)))
                /\ ~CksmCoveredWith(n, w, LsWithKnownFindings(n, w))
=============================================================================
