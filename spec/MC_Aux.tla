------------------------------- MODULE MC_Aux -------------------------------
(* Instantiation of HssAux for exhaustive model checking and walk generation. *)
EXTENDS HssAux

(* a and b have different seeds; a2 has the seed of a and other parameters (known finding of C10) *)
SeedOfAB(k) == IF k = "b" THEN "s2" ELSE "s1"
KeysAB == {"a", "b"}
KeysAA2 == {"a", "a2"}
=============================================================================
