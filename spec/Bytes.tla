-------------------------------- MODULE Bytes --------------------------------
(***************************************************************************)
(* Byte strings are TLA+ sequences over 0..255.  TLC integers are 32-bit   *)
(* signed, so                                                              *)
(*   - a 4-byte big-endian field is decoded to an integer only when its    *)
(*     value is < 2^31; anything larger decodes to Huge (-1), which every  *)
(*     user treats as "out of range";                                      *)
(*   - 64-bit quantities (the signature counter, lifetimes) are bit        *)
(*     vectors: functions 1..64 -> {0,1}, index i holding bit i-1 (LSB     *)
(*     first).                                                             *)
(***************************************************************************)
EXTENDS Naturals, Integers, Sequences, TLC

Byte == 0..255
IsByteSeq(b) == /\ DOMAIN b = 1..Len(b)
                /\ \A i \in 1..Len(b) : b[i] \in Byte

Pow2(k) == 2^k                       \* only used for k <= 30

(* ---- big-endian encoders (x < 2^31) ---- *)
U8(x)  == <<x>>
U16(x) == <<(x \div 256) % 256, x % 256>>
U32(x) == <<(x \div 16777216) % 256, (x \div 65536) % 256, (x \div 256) % 256, x % 256>>

(* ---- decoders ---- *)
Huge == -1
DecU32(b) == IF b[1] >= 128 THEN Huge
             ELSE ((b[1] * 256 + b[2]) * 256 + b[3]) * 256 + b[4]
DecU16(b) == b[1] * 256 + b[2]

(* ---- slicing; offsets are 0-based like in the RFC's byte layouts ---- *)
Slice(b, off, n) == SubSeq(b, off + 1, off + n)
Take(b, n)       == SubSeq(b, 1, n)
Drop(b, n)       == SubSeq(b, n + 1, Len(b))
HasBytes(b, off, n) == off >= 0 /\ n >= 0 /\ off + n <= Len(b)

Rep(x, n) == TLCEval([i \in 1..n |-> x])
Zeros(n)  == Rep(0, n)
IsAll(b, x) == \A i \in 1..Len(b) : b[i] = x

(* Concatenation of a sequence of byte strings (balanced, because linear   *)
(* recursion is quadratic in TLC).                                         *)
RECURSIVE CatRange(_, _, _)
CatRange(ss, lo, hi) ==
    IF lo > hi THEN <<>>
    ELSE IF lo = hi THEN ss[lo]
    ELSE LET mid == (lo + hi) \div 2
         IN  CatRange(ss, lo, mid) \o CatRange(ss, mid + 1, hi)
Cat(ss) == CatRange(ss, 1, Len(ss))

(* Concatenation of k strings of equal length n. *)
CatFixed(ss, k, n) == TLCEval([j \in 1..(k * n) |-> ss[((j - 1) \div n) + 1][((j - 1) % n) + 1]])
(* Split a string of length k*n into k strings of length n. *)
SplitFixed(b, k, n) == [i \in 1..k |-> SubSeq(b, (i - 1) * n + 1, i * n)]

(* XOR of two bytes, bit by bit (only used by the aux-data MAC). *)
XorByte(a, b) ==
    LET bit(x, k) == (x \div Pow2(k)) % 2
        F[k \in 0..8] == IF k = 8 THEN 0
                         ELSE (IF bit(a, k) # bit(b, k) THEN Pow2(k) ELSE 0) + F[k + 1]
    IN  F[0]

(* ------------------------- 64-bit vectors ------------------------------ *)
BvIdx == 1..64
IsBv(v) == v \in [BvIdx -> {0, 1}]
BvZero == [i \in BvIdx |-> 0]
BvOnes == [i \in BvIdx |-> 1]

(* 8 big-endian bytes <-> bit vector *)
BvFromBytes(b) == [i \in BvIdx |->
                     LET bitno == i - 1
                         byte  == b[8 - (bitno \div 8)]
                     IN  (byte \div Pow2(bitno % 8)) % 2]
BvToBytes(v) == [k \in 1..8 |->
                   LET base == 8 * (8 - k)          \* bit number of the byte's LSB
                   IN  v[base + 1] + 2 * v[base + 2] + 4 * v[base + 3] + 8 * v[base + 4]
                       + 16 * v[base + 5] + 32 * v[base + 6] + 64 * v[base + 7] + 128 * v[base + 8]]

(* small natural (< 2^31) -> bit vector *)
BvFromNat(x) == [i \in BvIdx |-> IF i <= 31 THEN (x \div Pow2(i - 1)) % 2 ELSE 0]

(* value of bits lo .. lo+len-1 (bit numbers, 0-based), len <= 30; bits    *)
(* beyond 63 read as zero                                                  *)
RECURSIVE BvSliceNatR(_, _, _)
BvSliceNatR(v, lo, len) ==
    IF len = 0 THEN 0
    ELSE (IF lo + 1 <= 64 THEN v[lo + 1] ELSE 0) + 2 * BvSliceNatR(v, lo + 1, len - 1)
BvSliceNat(v, lo, len) == BvSliceNatR(v, lo, len)

(* all bits at positions >= lo are zero *)
BvZeroFrom(v, lo) == \A i \in BvIdx : (i - 1 >= lo) => v[i] = 0

(* v + 1 modulo 2^64 *)
BvInc(v) == [i \in BvIdx |-> IF \A j \in 1..(i - 1) : v[j] = 1 THEN 1 - v[i] ELSE v[i]]

(* 2^t as a vector, t <= 63 *)
BvPow2(t) == [i \in BvIdx |-> IF i = t + 1 THEN 1 ELSE 0]

(* v < 2^t ; for t >= 64 always true *)
BvBelowPow2(v, t) == BvZeroFrom(v, t)

(* 2^t - v for v < 2^t, t <= 63: complement the low t bits and add one *)
BvPow2Minus(t, v) == BvInc([i \in BvIdx |-> IF i <= t THEN 1 - v[i] ELSE 0])

(* v = 2^t - 1 *)
BvIsPow2Minus1(v, t) == \A i \in BvIdx : v[i] = (IF i <= t THEN 1 ELSE 0)

(* unsigned comparison *)
BvLess(a, b) == \E i \in BvIdx : /\ a[i] = 0 /\ b[i] = 1
                                 /\ \A j \in (i + 1)..64 : a[j] = b[j]
=============================================================================
