SPECIFICATION GSpec
CHECK_DEADLOCK FALSE
CONSTANTS
  Keys = {"A"}
  Ctrs = {1, 6, 22}
  Levels = 3
  LeafBits = 2
  MaxNspk = 2
  CheckLevel = TRUE
  CheckContent = TRUE
  CheckTree = TRUE
