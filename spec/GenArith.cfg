SPECIFICATION Spec
CONSTANTS
  HeightSet = {5}
  MaxLen = 0
CHECK_DEADLOCK FALSE
