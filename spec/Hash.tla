-------------------------------- MODULE Hash --------------------------------
(***************************************************************************)
(* The six hash variants of the library: SHA-256 truncated to the first n  *)
(* bytes and SHAKE256 with n output bytes, n in {32, 24, 16}.              *)
(***************************************************************************)
EXTENDS Bytes, HashPrim

HashAlgs == {"sha256_n32", "sha256_n24", "sha256_n16",
             "shake256_n32", "shake256_n24", "shake256_n16"}

N(alg) == CASE alg \in {"sha256_n32", "shake256_n32"} -> 32
            [] alg \in {"sha256_n24", "shake256_n24"} -> 24
            [] alg \in {"sha256_n16", "shake256_n16"} -> 16

IsSha(alg) == alg \in {"sha256_n32", "sha256_n24", "sha256_n16"}

(* The hash block size used by the aux-data MAC (64 for every variant: the  *)
(* library declares BLOCK_SIZE = 64 for SHAKE as well).                     *)
BlockSize(alg) == 64

H(alg, bytes) == IF IsSha(alg) THEN SubSeq(SHA256(bytes), 1, N(alg))
                 ELSE SHAKE256(bytes, N(alg))
=============================================================================
