SPECIFICATION Spec
INVARIANT Lemma
CHECK_DEADLOCK FALSE
