-------------------------------- MODULE MC_Api --------------------------------
(***************************************************************************)
(* Abstract instantiation of HssApi for exhaustive model checking: a key   *)
(* state is [ctr, tag]; the shape (heights per level) is small; a          *)
(* signature is the triple <<key, ctr, msg>>; the one-time keys it uses    *)
(* are given by the mixed-radix digits of the counter.                     *)
(***************************************************************************)
EXTENDS HssApi, Integers

CONSTANTS HeightsC,          \* sequence of per-level heights, e.g. <<1, 2>>
          WatchAll,          \* TRUE: record every released one-time key; FALSE: one chosen at Init
          NoAdvance          \* NEGATIVE MODEL: Succ does not advance the counter

L == Len(HeightsC)
RECURSIVE SumTo(_, _)
SumTo(s, i) == IF i = 0 THEN 0 ELSE s[i] + SumTo(s, i - 1)
T == SumTo(HeightsC, L)
TotalSigs == 2^T

Live(c)   == [ctr |-> c, tag |-> "live"]
WipedS    == [ctr |-> 0, tag |-> "wiped"]
AbsNoKey  == [ctr |-> 0, tag |-> "none"]
AbsNoSig  == <<"nosig">>

AbsFresh(k) == Live(0)
(* walk generation for long lifetimes: the walk's key starts ten signatures before its end (the harness patches the *)
(* counter of the fresh key; TraceApi takes the start counter from the keygen event)                                *)
AbsFreshLate(k) == Live(TotalSigs - 10)
AbsSignable(s) == s.tag = "live" /\ s.ctr < TotalSigs
AbsSucc(s) == IF NoAdvance THEN s
              ELSE IF s.ctr >= TotalSigs - 1 THEN WipedS ELSE Live(s.ctr + 1)
AbsAfter(s, r) == s.tag = "wiped" \/ (s.tag = "live" /\ s.ctr > r.ctr)
AbsSigOf(k, s, m) == <<k, s.ctr, m>>
AbsBad(k) == {WipedS, Live(TotalSigs), Live(TotalSigs + 3), [ctr |-> 0, tag |-> "malformed"]}

(* mixed-radix digits, bottom level least significant *)
Below(i) == SumTo(HeightsC, L) - SumTo(HeightsC, i)          \* bits below level i
Digit(c, i) == (c \div 2^Below(i)) % 2^HeightsC[i]
TreeId(c, i) == c \div 2^(Below(i) + HeightsC[i])             \* which tree of level i (digits above)
AbsEntries(k, s, m, sig) ==
    {[ots |-> <<k, i, TreeId(s.ctr, i), Digit(s.ctr, i)>>,
      content |-> IF i = L THEN <<"msg", m>> ELSE <<"pub", k, i + 1, TreeId(s.ctr, i + 1)>>] : i \in 1..L}

AllOts == {<<k, i, t, q>> : k \in Keys, i \in 1..L, t \in 0..(TotalSigs - 1), q \in 0..(2^T - 1)}
ReachableOts == UNION {{e.ots : e \in AbsEntries(k, Live(c), AnyMsg, AbsNoSig)} : k \in Keys, c \in 0..(TotalSigs - 1)}
AbsWatchSet == IF WatchAll THEN {<<"all">>} ELSE ReachableOts

(* C05 on the model: accepted callbacks + remaining = total; wiped exactly at the end; dead afterwards *)
Remaining(s) == IF s.tag = "live" /\ s.ctr < TotalSigs THEN TotalSigs - s.ctr ELSE 0
LifetimeAccounting ==
    \A k \in Keys : latest[k] # AbsNoKey => nAcc[k] + Remaining(latest[k]) = TotalSigs
WipeAtLast == \A k \in Keys : (latest[k].tag = "wiped") <=> (nAcc[k] = TotalSigs)
DeadAfterWipe == ~AbsSignable(WipedS)
(* C13/C03 digit rule on the model: the n-th accepted state signs with the digits of n-1 *)
DigitRule == \A e \in released : e.ots[4] < 2^HeightsC[e.ots[2]]

H1 == <<1>>
H11 == <<1, 1>>
H12 == <<1, 2>>
H21 == <<2, 1>>
H111 == <<1, 1, 1>>
H212 == <<2, 1, 2>>
H2 == <<2>>
H22 == <<2, 2>>
H25 == <<2, 5>>
H52 == <<5, 2>>

(* keep the model finite: bad-key calls and lifetime queries do not change the state, so no bound is needed *)
View == <<store, mem, latest, call, released, nAcc, watch>>
=============================================================================
