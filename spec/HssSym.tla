------------------------------- MODULE HssSym -------------------------------
(***************************************************************************)
(* A symbolic rendering of RFC 8554 section 6.3 (with Algorithms 6a / 4b   *)
(* abstracted to "this LMS signature was made by that tree over that       *)
(* content"): hashes are collision free, a one-time signature verifies     *)
(* only for the content it was made for (the domination-freeness of the    *)
(* digit encoding, C12, is what justifies this abstraction), and an        *)
(* adversary RECOMBINES the components of released signatures: every       *)
(* signed-public-key block, every final LMS signature, every embedded      *)
(* public key, every message (or a serialised public key used as a         *)
(* message), every level count, under every LMS tree as public key.        *)
(*                                                                         *)
(* What TLC checks (MC_Sym*.cfg): the verification algorithm accepts a     *)
(* recombination if and only if it is a CONTIGUOUS SEGMENT of one released *)
(* certification chain - levels a..b of the signature released for some    *)
(* counter, presented under the tree of level a with level count b-a+1     *)
(* and with the content level b signed as message.  In particular, under   *)
(* a public key that key generation produced, the only accepted            *)
(* (message, signature) pairs are the released ones.  The variants of the  *)
(* algorithm that drop one check (level count, content binding, tree       *)
(* binding) must each yield a counterexample.                              *)
(*                                                                         *)
(* Binding (GenSym.tla, tools/props.py): every recombination TLC           *)
(* enumerates is also built from the BYTES of signatures the real library  *)
(* released and verified by the real code; TLC then requires               *)
(*   symbolic verdict = SpecVerify on the bytes = the code's verdict.      *)
(***************************************************************************)
EXTENDS Naturals, Sequences, FiniteSets, TLC

CONSTANTS Keys,        \* HSS keys (all with Levels levels and the same parameter types)
          Ctrs,        \* counters at which a signature was released, per key
          Levels,      \* number of HSS levels of every key (2 or 3)
          LeafBits,    \* height of every tree
          MaxNspk,     \* largest number of signed public keys the adversary tries
          CheckLevel, CheckContent, CheckTree   \* FALSE: NEGATIVE MODELS (a check of the algorithm dropped)

Pow2(i) == 2 ^ i
(* leaf used on level i (1 = top) for counter c: mixed radix, bottom level least significant *)
Leaf(c, i) == (c \div Pow2(LeafBits * (Levels - i))) % Pow2(LeafBits)
(* the tree of level i on the path of counter c: identified by the key and the leaves above it *)
TreeOf(k, c, i) == <<k, [j \in 1..(i - 1) |-> Leaf(c, j)]>>
Trees == {TreeOf(k, c, i) : k \in Keys, c \in Ctrs, i \in 1..Levels}

MsgOf(k, c) == <<"m", k, c>>                     \* every released signature signs its own message
PubContent(t) == <<"pub", t>>                    \* the serialised LMS public key of tree t, as signed content
MsgContent(m) == <<"msg", m>>

(* LMS signature: made by tree `tree` with leaf `leaf` over `content` *)
LmsSig(tree, leaf, content) == [tree |-> tree, leaf |-> leaf, content |-> content]

(* the released HSS signature of key k at counter c *)
RelSig(k, c, i) ==
    LmsSig(TreeOf(k, c, i), Leaf(c, i),
           IF i = Levels THEN MsgContent(MsgOf(k, c)) ELSE PubContent(TreeOf(k, c, i + 1)))
Released(k, c) ==
    [nspk |-> Levels - 1,
     spks |-> [i \in 1..(Levels - 1) |-> [sig |-> RelSig(k, c, i), pub |-> TreeOf(k, c, i + 1)]],
     last |-> RelSig(k, c, Levels),
     msg  |-> MsgContent(MsgOf(k, c)),
     pk   |-> [L |-> Levels, tree |-> TreeOf(k, c, 1)]]

(* ---- what the adversary has: components of released signatures ---- *)
SigComps == {RelSig(k, c, i) : k \in Keys, c \in Ctrs, i \in 1..Levels}
PubComps == Trees
Contents == {MsgContent(MsgOf(k, c)) : k \in Keys, c \in Ctrs} \cup {PubContent(t) : t \in Trees}
Pks == {[L |-> l, tree |-> t] : l \in 1..(MaxNspk + 2), t \in Trees}
SpkSeqs(n) == [1..n -> [sig : SigComps, pub : PubComps]]
Terms == UNION {[nspk : {n}, spks : SpkSeqs(n), last : SigComps, msg : Contents, pk : Pks] : n \in 0..MaxNspk}

(* ---- RFC 8554 section 6.3 on terms ---- *)
(* Algorithm 6a on terms: the signature was made by the tree that is the key, over the content *)
LmsVerify(s, keyTree, content) ==
    /\ (CheckTree => s.tree = keyTree)
    /\ (CheckContent => s.content = content)
RECURSIVE Chain(_, _, _)
Chain(t, key, i) ==
    IF i > t.nspk THEN LmsVerify(t.last, key, t.msg)
    ELSE /\ LmsVerify(t.spks[i].sig, key, PubContent(t.spks[i].pub))
         /\ Chain(t, t.spks[i].pub, i + 1)
Accept(t) ==
    /\ (CheckLevel => t.nspk + 1 = t.pk.L)
    /\ Chain(t, t.pk.tree, 1)

(* ---- the ideal: contiguous segments of released certification chains ---- *)
Segment(k, c, a, b) ==
    [nspk |-> b - a,
     spks |-> [i \in 1..(b - a) |-> [sig |-> RelSig(k, c, a + i - 1), pub |-> TreeOf(k, c, a + i)]],
     last |-> RelSig(k, c, b),
     msg  |-> RelSig(k, c, b).content,
     pk   |-> [L |-> b - a + 1, tree |-> TreeOf(k, c, a)]]
Ideal(t) == \E k \in Keys, c \in Ctrs, a \in 1..Levels, b \in 1..Levels : a <= b /\ t = Segment(k, c, a, b)

(* ---- model: one recombination per initial state ---- *)
VARIABLE term
(* (quantifier by quantifier: TLC refuses to build the whole set Terms once it has more than a million elements) *)
Init == \E n \in 0..MaxNspk : \E sp \in SpkSeqs(n) : \E l \in SigComps : \E m \in Contents : \E p \in Pks :
            term = [nspk |-> n, spks |-> sp, last |-> l, msg |-> m, pk |-> p]
Next == UNCHANGED term
Spec == Init /\ [][Next]_term

AcceptsExactlySegments == Accept(term) <=> Ideal(term)
(* under a public key that key generation produced, only released (message, signature) pairs are accepted *)
HonestPk(p) == p.L = Levels /\ \E k \in Keys, c \in Ctrs : p.tree = TreeOf(k, c, 1)
NoForgeryByRecombination ==
    (Accept(term) /\ HonestPk(term.pk)) => \E k \in Keys, c \in Ctrs : term = Released(k, c)
(* every released signature is accepted (completeness on terms) *)
ReleasedAccepted == \A k \in Keys, c \in Ctrs : Accept(Released(k, c))
=============================================================================
