SPECIFICATION Spec
CONSTANTS
  Keys = {"A"}
  Ctrs = {1, 22}
  Levels = 3
  LeafBits = 2
  MaxNspk = 2
  CheckLevel = TRUE
  CheckContent = TRUE
  CheckTree = TRUE
INVARIANTS AcceptsExactlySegments NoForgeryByRecombination ReleasedAccepted
CHECK_DEADLOCK FALSE
