SPECIFICATION Spec
INVARIANT NoSecretSurvives
CHECK_DEADLOCK FALSE
