SPECIFICATION Spec
CONSTANTS
  Shapes <- ShapesFull
  CtrStride = 1
INVARIANT Complete
CHECK_DEADLOCK FALSE
