SPECIFICATION GSpec
CONSTANTS
  Keys <- KeysAB
  SeedOf <- SeedOfAB
  H = 5
  Cap = 45
  CheckMac = TRUE
  ClearFresh = TRUE
  WalkLen = 16
  Sids = {1, 2, 3, 4, 5, 6, 7, 8}
INVARIANTS WalkComplete AuxTransparent
CHECK_DEADLOCK FALSE
