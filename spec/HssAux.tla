------------------------------- MODULE HssAux -------------------------------
(***************************************************************************)
(* Protocol model of the auxiliary-data cache (C10): ONE caller-owned      *)
(* buffer that lives across calls, is handed to key generation and signing *)
(* of possibly different keys, and is tampered with, truncated, padded or  *)
(* replaced between calls.  What the library does with it is modelled step *)
(* for step after src/hss/definitions.rs (get_expanded_aux_data),          *)
(* src/hss/aux.rs (hss_expand_aux_data, hss_optimal_aux_level,             *)
(* hss_finalize_aux_data) and src/lms/helper.rs (get_tree_element):        *)
(*                                                                         *)
(*   marker byte 0      -> "fresh": shrink to the used length, clear,      *)
(*                         write the level word, FILL while computing;     *)
(*                         key generation then writes the MAC, signing     *)
(*                         does not (the buffer it leaves is never trusted *)
(*                         again)                                          *)
(*   marker byte not 0  -> "used": read back ONLY if the announced levels  *)
(*                         and the MAC fill the buffer exactly and the MAC *)
(*                         is the one keyed with this seed                 *)
(*                                                                         *)
(* Lengths are in units of one hash value; the 4-byte level word and the   *)
(* MAC count one unit each (only the order of the thresholds matters).     *)
(* Node contents are abstract: a cached level holds zeros, the complete or *)
(* a partial set of the nodes of SOME key's top tree, or junk.  The MAC is *)
(* modelled as the triple it authenticates.                                *)
(*                                                                         *)
(* The transparency statement: whatever happened to the buffer, every      *)
(* result is computed from right values only.                              *)
(***************************************************************************)
EXTENDS Naturals, FiniteSets, Sequences, TLC

CONSTANTS
    Keys,          \* key identities
    SeedOf(_),     \* key -> identity of its master seed (two keys may share one: same seed, other parameters)
    H,             \* height of the top tree
    Cap,           \* largest buffer length the caller tries
    CheckMac,      \* FALSE: NEGATIVE MODEL - used buffers are read back without the MAC comparison
    ClearFresh     \* FALSE: NEGATIVE MODEL - a fresh buffer is used as a cache without being cleared

VARIABLES buf,     \* the caller's buffer
          last     \* observation of the last library call

vars == <<buf, last>>

Pow2(i) == 2 ^ i
Levels == {l \in 1..H : (H - l) % 2 = 0}           \* h, h-2, ... >= 1

(* hss_optimal_aux_level: greedy from the top level downwards *)
RECURSIVE OptimalR(_, _)
OptimalR(rem, l) ==
    IF l < 1 THEN {}
    ELSE IF rem >= Pow2(l) THEN {l} \cup OptimalR(rem - Pow2(l), l - 2)
    ELSE OptimalR(rem, l - 2)
Optimal(c) == IF c < 2 THEN {} ELSE OptimalR(c - 2, H)
RECURSIVE SumPow(_)
SumPow(S) == IF S = {} THEN 0 ELSE LET l == CHOOSE x \in S : TRUE IN Pow2(l) + SumPow(S \ {l})
Size(S) == 2 + SumPow(S)                            \* level word + cached levels + MAC
UsedLen(c) == IF Optimal(c) = {} THEN 1 ELSE Size(Optimal(c))

Content == {<<"none">>, <<"zero">>, <<"junk">>} \cup {<<t, k>> : t \in {"full", "part"}, k \in Keys}
NoData == [l \in Levels |-> <<"none">>]
JunkFor(S) == [l \in Levels |-> IF l \in S THEN <<"junk">> ELSE <<"none">>]

Mac(seed, word, data) == [seed |-> seed, word |-> word, data |-> data]
ZeroMac == [seed |-> "zero", word |-> {}, data |-> [l \in Levels |-> <<"none">>]]
JunkMac == [seed |-> "junk", word |-> {}, data |-> [l \in Levels |-> <<"none">>]]
NoBuffer == [cap |-> 0, marker |-> FALSE, word |-> {}, data |-> NoData, mac |-> ZeroMac]

Dirty(b) == (\E l \in Levels : b.data[l] \notin {<<"none">>, <<"zero">>}) \/ b.mac # ZeroMac

(* ---- get_expanded_aux_data + hss_expand_aux_data: the trust decision ---- *)
Expand(b, k) ==
    IF b.cap = 0 THEN [mode |-> "none", b |-> b]
    ELSE IF ~b.marker THEN
        LET S == Optimal(b.cap)
            left == IF ~ClearFresh /\ Dirty(b) THEN <<"junk">> ELSE <<"zero">>
        IN  [mode |-> IF S = {} THEN "none" ELSE "fill",
             b |-> [cap |-> UsedLen(b.cap), marker |-> S # {}, word |-> S,
                    data |-> [l \in Levels |-> IF l \in S THEN left ELSE <<"none">>],
                    mac |-> ZeroMac]]
    ELSE IF /\ b.cap = Size(b.word)                 \* announced levels + MAC fill the buffer exactly
            /\ (CheckMac => b.mac = Mac(SeedOf(k), b.word, b.data))
         THEN [mode |-> "trusted", b |-> b]
    ELSE [mode |-> "none", b |-> b]

(* get_tree_element: a cached entry that is not all zero is believed *)
RightFor(b, k, mode) ==
    mode = "none" \/ \A l \in b.word : b.data[l] \in {<<"zero">>, <<"full", k>>, <<"part", k>>}

Mine(c, k) == c \in {<<"zero">>, <<"full", k>>, <<"part", k>>}

(* ---- key generation: the whole top tree is computed, every cached level is completed ---- *)
Keygen(k, withAux) ==
    IF ~withAux THEN /\ last' = [op |-> "keygen", k |-> k, aux |-> FALSE, mode |-> "none", right |-> TRUE, capIn |-> 0, macOk |-> FALSE]
                     /\ UNCHANGED buf
    ELSE LET e == Expand(buf, k)
             b == e.b
             d2 == [l \in Levels |-> IF l \in b.word /\ e.mode # "none" /\ Mine(b.data[l], k) THEN <<"full", k>> ELSE b.data[l]]
         IN  /\ buf' = IF e.mode = "fill" THEN [b EXCEPT !.data = d2, !.mac = Mac(SeedOf(k), b.word, d2)]   \* hss_finalize_aux_data
                       ELSE IF e.mode = "trusted" THEN [b EXCEPT !.data = d2]
                       ELSE b
             /\ last' = [op |-> "keygen", k |-> k, aux |-> TRUE, mode |-> e.mode, right |-> RightFor(b, k, e.mode), capIn |-> buf.cap,
                          macOk |-> buf.mac = Mac(SeedOf(k), buf.word, buf.data)]

(* ---- signing: only the authentication path is computed; NO MAC is written ---- *)
Sign(k, withAux) ==
    IF ~withAux THEN /\ last' = [op |-> "sign", k |-> k, aux |-> FALSE, mode |-> "none", right |-> TRUE, capIn |-> 0, macOk |-> FALSE]
                     /\ UNCHANGED buf
    ELSE LET e == Expand(buf, k)
             b == e.b
             d2 == [l \in Levels |-> IF l \in b.word /\ e.mode # "none" /\ b.data[l] = <<"zero">> THEN <<"part", k>> ELSE b.data[l]]
         IN  /\ buf' = IF e.mode = "none" THEN b ELSE [b EXCEPT !.data = d2]
             /\ last' = [op |-> "sign", k |-> k, aux |-> TRUE, mode |-> e.mode, right |-> RightFor(b, k, e.mode), capIn |-> buf.cap,
                          macOk |-> buf.mac = Mac(SeedOf(k), buf.word, buf.data)]

(* ---- what can happen to the buffer between calls ---- *)
Between(rec) == last' = [op |-> rec, k |-> CHOOSE k \in Keys : TRUE, aux |-> FALSE, mode |-> "none", right |-> TRUE, capIn |-> 0, macOk |-> FALSE]

NewZero(c) == /\ buf' = [NoBuffer EXCEPT !.cap = c] /\ Between("new_zero")
NewGarbage(c, m) ==           \* arbitrary bytes; first byte zero (m = FALSE) or not
    /\ c >= 1
    /\ \E S \in SUBSET Levels :
          buf' = [cap |-> c, marker |-> m, word |-> S, data |-> JunkFor(S), mac |-> JunkMac]
    /\ Between("new_garbage")
TamperData(l) == /\ l \in buf.word /\ buf.data[l] # <<"junk">>
                 /\ buf' = [buf EXCEPT !.data[l] = <<"junk">>] /\ Between("tamper_data")
TamperWord(S) == /\ buf.marker /\ S # buf.word
                 /\ buf' = [buf EXCEPT !.word = S, !.data = JunkFor(S)] /\ Between("tamper_word")
TamperMac == /\ buf.cap >= 2 /\ buf.mac # JunkMac
             /\ buf' = [buf EXCEPT !.mac = JunkMac] /\ Between("tamper_mac")
ClearMarker == /\ buf.marker /\ buf' = [buf EXCEPT !.marker = FALSE] /\ Between("clear_marker")
Truncate(c) == /\ c < buf.cap
               /\ buf' = IF c >= Size(buf.word) THEN [buf EXCEPT !.cap = c]
                         ELSE [buf EXCEPT !.cap = c, !.mac = JunkMac]
               /\ Between("truncate")
Pad(c) == /\ c > buf.cap /\ buf.cap >= 1 /\ buf' = [buf EXCEPT !.cap = c] /\ Between("pad")

Init == buf = NoBuffer /\ last = [op |-> "init", k |-> CHOOSE k \in Keys : TRUE, aux |-> FALSE, mode |-> "none", right |-> TRUE, capIn |-> 0, macOk |-> FALSE]

Next ==
    \/ \E k \in Keys, a \in BOOLEAN : Keygen(k, a) \/ Sign(k, a)
    \/ \E c \in 0..Cap : NewZero(c) \/ Truncate(c) \/ Pad(c)
    \/ \E c \in 1..Cap, m \in BOOLEAN : NewGarbage(c, m)
    \/ \E l \in Levels : TamperData(l)
    \/ \E S \in SUBSET Levels : TamperWord(S)
    \/ TamperMac \/ ClearMarker

Spec == Init /\ [][Next]_vars

(* ====================================================================== *)
(* C10                                                                     *)
(* ====================================================================== *)
(* every result is computed from right values only *)
AuxTransparent == last.right

(* only buffers carrying the MAC for this seed over exactly their contents are read back *)
OnlyAuthenticatedIsRead == last.mode = "trusted" => last.macOk
(* key generation on a fresh buffer: shrunk to the used length, level word, complete levels, MAC *)
KeygenLeavesLayout ==
    (last.op = "keygen" /\ last.mode = "fill") =>
        /\ buf.cap = UsedLen(last.capIn) /\ buf.word = Optimal(last.capIn) /\ buf.marker
        /\ \A l \in buf.word : buf.data[l] = <<"full", last.k>>
        /\ buf.mac = Mac(SeedOf(last.k), buf.word, buf.data)
(* a buffer that cannot hold a single level is shrunk to its marker byte and stays "fresh" *)
TooSmallStaysFresh ==
    (last.op \in {"keygen", "sign"} /\ last.aux /\ last.capIn >= 1 /\ Optimal(last.capIn) = {} /\ last.mode = "none" /\ ~buf.marker)
        => buf.cap \in {1, last.capIn}
(* signing never authenticates: after a fill by signing the buffer is not trusted by anyone *)
SignNeverWritesMac ==
    (last.op = "sign" /\ last.mode = "fill") => buf.mac = ZeroMac

TypeOK == /\ buf.cap \in 0..Cap /\ buf.marker \in BOOLEAN /\ buf.word \subseteq Levels
          /\ \A l \in Levels : buf.data[l] \in Content
=============================================================================
