SPECIFICATION SpecApi
CHECK_DEADLOCK FALSE
\* see TraceBytes.cfg
CONSTANT LsEff <- LsWithKnownFindings
CONSTANT MaxLevels <- EnvMaxLevels
CONSTANT MaxHeightAt <- EnvMaxHeightAt
CONSTANT MinWAt <- EnvMinWAt
