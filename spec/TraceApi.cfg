SPECIFICATION SpecApi
CHECK_DEADLOCK FALSE
\* see TraceBytes.cfg
CONSTANT LsEff <- LsWithKnownFindings
