------------------------------- MODULE MC_Prim -------------------------------
(* Evaluates the two overridden primitives on the byte strings listed in    *)
(* IOEnv.PRIM_IN and writes the digests to IOEnv.PRIM_OUT; tools/vlib.py     *)
(* compares them with python hashlib before any check is allowed to pass.   *)
EXTENDS Hash, Json, IOUtils

In == ndJsonDeserialize(IOEnv.PRIM_IN)
Out == [i \in 1..Len(In) |->
          LET b == HexToBytes(In[i].hex) IN
          [sha256  |-> BytesToHex(SHA256(b)),
           shake16 |-> BytesToHex(SHAKE256(b, 16)),
           shake24 |-> BytesToHex(SHAKE256(b, 24)),
           shake32 |-> BytesToHex(SHAKE256(b, 32))]]
ASSUME ndJsonSerialize(IOEnv.PRIM_OUT, Out)
ASSUME \A i \in 1..Len(In) : HexToBytes(BytesToHex(HexToBytes(In[i].hex))) = HexToBytes(In[i].hex)
=============================================================================
