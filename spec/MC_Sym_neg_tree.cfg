SPECIFICATION Spec
CONSTANTS
  Keys = {"A", "B"}
  Ctrs = {1, 6}
  Levels = 2
  LeafBits = 2
  MaxNspk = 1
  CheckLevel = TRUE
  CheckContent = TRUE
  CheckTree = FALSE
INVARIANTS AcceptsExactlySegments NoForgeryByRecombination ReleasedAccepted
CHECK_DEADLOCK FALSE
