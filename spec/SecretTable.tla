------------------------------ MODULE SecretTable ------------------------------
(* C16: the secret-bearing types of the library and the least number of secret   *)
(* bytes a populated value of each holds (used by SecretLifecycle and by the     *)
(* probe judge TraceBytes!JudgeHook).                                            *)
EXTENDS LmOts

SecretTypes == {"Seed", "SeedFromArray", "SeedAndLmsTreeIdentifier", "ReferenceImplPrivateKey", "LmsPrivateKey", "LmotsPrivateKey"}

(* the least number of secret bytes a populated value of the type holds, for hash output length n *)
SecretBytes(ty, n) ==
    CASE ty = "Seed"                     -> n             \* master or tree seed
      [] ty = "SeedFromArray"            -> 32            \* Seed::from([u8; 32]): the whole array of the caller is held
      [] ty = "SeedAndLmsTreeIdentifier" -> n             \* tree seed (+ identifier)
      [] ty = "ReferenceImplPrivateKey"  -> n             \* master seed (+ counter)
      [] ty = "LmsPrivateKey"            -> n             \* tree seed (+ identifier, leaf index)
      [] ty = "LmotsPrivateKey"          -> n * P(n, 1)   \* p chain start values (default W1 parameter)

=============================================================================
