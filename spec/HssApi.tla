-------------------------------- MODULE HssApi --------------------------------
(***************************************************************************)
(* Protocol model of a caller using the library: the only long-lived state *)
(* is the private key (8-byte counter inside it) that the CALLER persists  *)
(* through the update callback.  One action per step of hss_sign_core, so  *)
(* that a crash can fall between any two of them.                          *)
(*                                                                         *)
(* The data operators are CONSTANT operators.  MC_Api instantiates them    *)
(* abstractly (key state = counter + tag, small shapes) for exhaustive     *)
(* model checking; TraceApi instantiates them with the byte-level          *)
(* operators of Hss.tla and replays recorded executions of the real        *)
(* library through the SAME actions.                                       *)
(***************************************************************************)
EXTENDS Naturals, Sequences, FiniteSets, TLC

CONSTANTS
    Keys,                 \* key identities
    Msgs,                 \* messages
    NoKey,                \* "no key state" (comparable with key states)
    NoSig,                \* "no signature"
    Fresh(_),             \* k           -> key state produced by key generation
    Signable(_),          \* key state   -> BOOLEAN: well formed, not wiped, counter in range
    Succ(_),              \* key state   -> successor (the wiped state after the last leaf)
    After(_, _),          \* (s, r)      -> s is strictly later than r (or wiped)
    SigOf(_, _, _),       \* (k, s, m)   -> the signature on m under key state s
    EntriesOf(_, _, _, _),\* (k, s, m, sig) -> set of [ots, content]: one-time keys used, every level
    BadStates(_),         \* k           -> malformed / wiped / out-of-range key states to try
    ContinueFromLatest,   \* BOOLEAN: the caller continues from the most recently accepted key (premise of C03)
    ReleaseEarly,         \* BOOLEAN: NEGATIVE MODEL - signature handed out before the callback
    WatchSet              \* the ghost records either every one-time key (WatchSet = {<<"all">>}) or one
                          \* nondeterministically chosen at Init (WatchSet = all one-time key ids): a
                          \* violation of NoReuse involves a single one-time key, so this is sound and
                          \* complete and keeps the state space linear in the key's lifetime

VARIABLES
    store,      \* [Keys -> key state]  the caller's persistent storage
    mem,        \* [Keys -> key state]  in-memory SigningKey objects (lost in a crash)
    latest,     \* [Keys -> key state]  ghost: most recently ACCEPTED key state
    call,       \* the call in flight
    released,   \* ghost: set of [ots, content] taken from RETURNED signatures only
    nAcc,       \* ghost: [Keys -> number of accepted callbacks]
    watch,      \* ghost: which one-time key `released` records (see WatchSet)
    lastRet     \* observation: what the last completed operation returned

vars == <<store, mem, latest, call, released, nAcc, watch, lastRet>>
ghost == <<released, nAcc, watch>>
Watch(e) == watch = <<"all">> \/ e.ots = watch

Apis == {"bytes", "mem"}
Plans == {"accept", "reject", "crash_before", "crash_after"}
(* SigningKey::try_sign's own closure always accepts *)
PlansFor(api) == IF api = "bytes" THEN Plans ELSE {"accept", "crash_before", "crash_after"}

AnyKey == CHOOSE k \in Keys : TRUE
AnyMsg == CHOOSE m \in Msgs : TRUE
Idle == [pc |-> "idle", k |-> AnyKey, api |-> "bytes", key |-> NoKey, msg |-> AnyMsg, plan |-> "accept",
         cand |-> NoSig, succ |-> NoKey, cbCount |-> 0, cbOk |-> FALSE, bad |-> FALSE]
NoRet == [kind |-> "none", k |-> AnyKey, val |-> NoSig]

Init ==
    /\ store = [k \in Keys |-> NoKey]
    /\ mem = [k \in Keys |-> NoKey]
    /\ latest = [k \in Keys |-> NoKey]
    /\ call = Idle
    /\ released = {}
    /\ nAcc = [k \in Keys |-> 0]
    /\ watch \in WatchSet
    /\ lastRet = NoRet

(* ---------------------------------------------------------------------- *)
(* key generation                                                          *)
(* ---------------------------------------------------------------------- *)
KeygenWith(k, s) ==
    /\ call.pc = "idle"
    /\ latest[k] = NoKey
    /\ store' = [store EXCEPT ![k] = s]
    /\ mem' = [mem EXCEPT ![k] = s]
    /\ latest' = [latest EXCEPT ![k] = s]
    /\ lastRet' = [kind |-> "keygen", k |-> k, val |-> NoSig]
    /\ UNCHANGED <<call, ghost>>
Keygen(k) == KeygenWith(k, Fresh(k))

(* ---------------------------------------------------------------------- *)
(* signing: hss_sign / SigningKey::try_sign[_with_aux]                     *)
(* ---------------------------------------------------------------------- *)
CallSign(k, api, m, plan) ==
    /\ call.pc = "idle"
    /\ latest[k] # NoKey
    /\ api \in Apis /\ plan \in PlansFor(api)
    /\ LET holder == IF api = "bytes" THEN store[k] ELSE mem[k] IN
       /\ holder # NoKey
       /\ ContinueFromLatest => holder = latest[k]
       /\ call' = [Idle EXCEPT !.pc = "parse", !.k = k, !.api = api, !.key = holder, !.msg = m, !.plan = plan]
    /\ UNCHANGED <<store, mem, latest, ghost, lastRet>>

(* a call with a malformed / wiped / exhausted / out-of-range key (C04, C11) *)
CallSignBad(k, bad, m, plan) ==
    /\ call.pc = "idle"
    /\ bad \in BadStates(k)
    /\ plan \in Plans
    /\ call' = [Idle EXCEPT !.pc = "parse", !.k = k, !.api = "bytes", !.key = bad, !.msg = m, !.plan = plan, !.bad = TRUE]
    /\ UNCHANGED <<store, mem, latest, ghost, lastRet>>

(* ReferenceImplPrivateKey::from_binary_representation, CompressedParameterSet::to, counter range *)
StepParse ==
    /\ call.pc = "parse"
    /\ call' = [call EXCEPT !.pc = IF Signable(call.key) THEN "build" ELSE "fail"]
    /\ UNCHANGED <<store, mem, latest, ghost, lastRet>>

(* HssPrivateKey::from + HssSignature::sign: the signature exists, NOT released *)
(* (trace validation binds sig to the signature the real code produced)                     *)
StepBuildWith(sig) ==
    /\ call.pc = "build"
    /\ call' = [call EXCEPT !.pc = "increment", !.cand = sig]
    /\ IF ReleaseEarly
       THEN /\ released' = released \cup {e \in EntriesOf(call.k, call.key, call.msg, sig) : Watch(e)}
            /\ lastRet' = [kind |-> "sig", k |-> call.k, val |-> sig]
            /\ UNCHANGED <<nAcc, watch>>
       ELSE UNCHANGED <<ghost, lastRet>>
    /\ UNCHANGED <<store, mem, latest>>
StepBuild == StepBuildWith(SigOf(call.k, call.key, call.msg))

(* ReferenceImplPrivateKey::increment (or wipe) *)
StepIncrement ==
    /\ call.pc = "increment"
    /\ call' = [call EXCEPT !.pc = "callback", !.succ = Succ(call.key)]
    /\ UNCHANGED <<store, mem, latest, ghost, lastRet>>

Accepted(c) ==      \* the effect of an accepting callback on the holder of the key
    /\ IF c.api = "bytes"
       THEN store' = [store EXCEPT ![c.k] = c.succ] /\ UNCHANGED mem
       ELSE mem' = [mem EXCEPT ![c.k] = c.succ] /\ UNCHANGED store
    /\ latest' = [latest EXCEPT ![c.k] = c.succ]
    /\ nAcc' = [nAcc EXCEPT ![c.k] = @ + 1]

CrashEffects ==     \* the process dies: the call and every in-memory object vanish, the storage stays
    /\ call' = Idle
    /\ lastRet' = [kind |-> "crash", k |-> call.k, val |-> NoSig]

(* private_key_update_function(successor) *)
StepCallback ==
    /\ call.pc = "callback"
    /\ CASE call.plan = "accept" ->
              /\ Accepted(call)
              /\ call' = [call EXCEPT !.pc = "return_ok", !.cbCount = @ + 1, !.cbOk = TRUE]
              /\ UNCHANGED <<released, watch, lastRet>>
         [] call.plan = "reject" ->
              /\ call' = [call EXCEPT !.pc = "fail_cb", !.cbCount = @ + 1]
              /\ UNCHANGED <<store, mem, latest, ghost, lastRet>>
         [] call.plan = "crash_before" ->
              /\ CrashEffects
              /\ mem' = [k \in Keys |-> NoKey]
              /\ UNCHANGED <<store, latest, ghost>>
         [] call.plan = "crash_after" ->
              /\ CrashEffects
              /\ IF call.api = "bytes" THEN store' = [store EXCEPT ![call.k] = call.succ] ELSE UNCHANGED store
              /\ mem' = [k \in Keys |-> NoKey]
              /\ latest' = [latest EXCEPT ![call.k] = call.succ]
              /\ nAcc' = [nAcc EXCEPT ![call.k] = @ + 1]
              /\ UNCHANGED <<released, watch>>

(* Signature::from_bytes_verbose(...): the signature leaves the library *)
StepReturnOk ==
    /\ call.pc = "return_ok"
    /\ released' = released \cup {e \in EntriesOf(call.k, call.key, call.msg, call.cand) : Watch(e)}
    /\ lastRet' = [kind |-> "sig", k |-> call.k, val |-> call.cand]
    /\ call' = Idle
    /\ UNCHANGED <<store, mem, latest, nAcc, watch>>

StepReturnErr ==
    /\ call.pc \in {"fail", "fail_cb"}
    /\ lastRet' = [kind |-> "err", k |-> call.k, val |-> NoSig]
    /\ call' = Idle
    /\ UNCHANGED <<store, mem, latest, ghost>>

(* a crash between any two steps of a call, or while idle *)
Crash ==
    /\ call.pc # "callback"          \* crashes inside the callback are the crash_* plans
    /\ call' = Idle
    /\ mem' = [k \in Keys |-> NoKey]
    /\ lastRet' = [kind |-> "crash", k |-> call.k, val |-> NoSig]
    /\ UNCHANGED <<store, latest, ghost>>

(* SigningKey::from_bytes(storage) / storage := SigningKey::as_slice() *)
Reload(k) ==
    /\ call.pc = "idle"
    /\ store[k] # NoKey
    /\ ContinueFromLatest => store[k] = latest[k]
    /\ mem' = [mem EXCEPT ![k] = store[k]]
    /\ lastRet' = [kind |-> "reload", k |-> k, val |-> NoSig]
    /\ UNCHANGED <<store, latest, call, ghost>>

Persist(k) ==
    /\ call.pc = "idle"
    /\ mem[k] # NoKey
    /\ ContinueFromLatest => mem[k] = latest[k]
    /\ store' = [store EXCEPT ![k] = mem[k]]
    /\ lastRet' = [kind |-> "persist", k |-> k, val |-> NoSig]
    /\ UNCHANGED <<mem, latest, call, ghost>>

(* SigningKey::get_lifetime *)
GetLifetime(k, api) ==
    /\ call.pc = "idle"
    /\ LET holder == IF api = "bytes" THEN store[k] ELSE mem[k] IN
       /\ holder # NoKey
       /\ lastRet' = [kind |-> "lifetime", k |-> k, val |-> holder]
    /\ UNCHANGED <<store, mem, latest, call, ghost>>

Next ==
    \/ \E k \in Keys : Keygen(k) \/ Reload(k) \/ Persist(k)
    \/ \E k \in Keys, api \in Apis : GetLifetime(k, api)
    \/ \E k \in Keys, api \in Apis, m \in Msgs, plan \in Plans : CallSign(k, api, m, plan)
    \/ \E k \in Keys, m \in Msgs, plan \in Plans : \E bad \in BadStates(k) : CallSignBad(k, bad, m, plan)
    \/ StepParse \/ StepBuild \/ StepIncrement \/ StepCallback \/ StepReturnOk \/ StepReturnErr
    \/ Crash

Spec == Init /\ [][Next]_vars

(* ====================================================================== *)
(* Properties                                                             *)
(* ====================================================================== *)
(* C03: no one-time key is used in released signatures for two contents *)
NoReuse == \A a, b \in released : a.ots = b.ots => a.content = b.content

(* C03/C04 crash safety.  At the moment a signature is about to leave the library the accepted  *)
(* key state is already beyond the state that produced it, and for the byte-level API so is the  *)
(* caller's STORAGE; together with monotonicity (key states only move forward) this holds for    *)
(* every released signature forever.  Formulated at release time so that no per-signature ghost  *)
(* is needed.                                                                                    *)
ReleaseSafe ==
    call.pc = "return_ok" => /\ After(latest[call.k], call.key)
                             /\ call.api = "bytes" => After(store[call.k], call.key)
                             /\ call.api = "mem" => After(mem[call.k], call.key)
Monotone == [][\A k \in Keys :
                 /\ latest'[k] = latest[k] \/ latest[k] = NoKey \/ After(latest'[k], latest[k])
                 /\ store'[k] = store[k] \/ store[k] = NoKey \/ After(store'[k], store[k])]_vars

(* C04 *)
CbAtMostOnce == call.cbCount <= 1
SigOnlyAfterAcceptedCb ==
    call.pc = "return_ok" => /\ call.cbCount = 1 /\ call.cbOk
                             /\ call.succ = Succ(call.key)
                             /\ latest[call.k] = call.succ
NoCbOnFailure == call.pc = "fail" => call.cbCount = 0
BadKeyNeverSigns == call.bad => call.pc \in {"parse", "fail"}
(* an action property: a signature is returned only by StepReturnOk *)
SigReturnedOnlyViaOk == [][lastRet'.kind = "sig" /\ lastRet' # lastRet => call.pc = "return_ok"]_vars

(* C05 accounting is stated by the instantiating module (it needs Total / Remaining)           *)

TypeOK ==
    /\ call.pc \in {"idle", "parse", "build", "increment", "callback", "return_ok", "fail", "fail_cb"}
    /\ call.cbCount \in 0..2
=============================================================================
