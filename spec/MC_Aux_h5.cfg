SPECIFICATION Spec
CONSTANTS
  Keys <- KeysAB
  SeedOf <- SeedOfAB
  H = 5
  Cap = 45
  CheckMac = TRUE
  ClearFresh = TRUE
INVARIANTS TypeOK AuxTransparent OnlyAuthenticatedIsRead KeygenLeavesLayout TooSmallStaysFresh SignNeverWritesMac
CHECK_DEADLOCK FALSE
