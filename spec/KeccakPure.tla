----------------------------- MODULE KeccakPure -----------------------------
(***************************************************************************)
(* FIPS 202 SHAKE256 (Keccak-f[1600], rate 136 bytes, domain suffix 0x1F)  *)
(* written in TLA+ itself, for outputs of at most 136 bytes.  A 64-bit     *)
(* lane is a tuple of four 16-bit limbs, least significant first (TLC's    *)
(* integers are 32-bit); bitwise operations on limbs come from the         *)
(* CommunityModules' Bitwise module.  Checked against the Java override    *)
(* HashPrim.SHAKE256 by MC_PrimPure; never used for validation itself.     *)
(***************************************************************************)
EXTENDS Naturals, Sequences, Bitwise, TLC

P2(i) == 2 ^ i
XorL(a, b) == <<a[1] ^^ b[1], a[2] ^^ b[2], a[3] ^^ b[3], a[4] ^^ b[4]>>
AndL(a, b) == <<a[1] & b[1], a[2] & b[2], a[3] & b[3], a[4] & b[4]>>
NotL(a) == <<65535 - a[1], 65535 - a[2], 65535 - a[3], 65535 - a[4]>>
ZeroL == <<0, 0, 0, 0>>
(* rotate a lane left by 0 <= n < 64 *)
RotL(a, n) ==
    LET k == n \div 16
        m == n % 16
        b == <<a[((4 - k) % 4) + 1], a[((5 - k) % 4) + 1], a[((6 - k) % 4) + 1], a[((7 - k) % 4) + 1]>>   \* whole limbs
    IN  IF m = 0 THEN b
        ELSE <<((b[1] * P2(m)) % 65536) + (b[4] \div P2(16 - m)), ((b[2] * P2(m)) % 65536) + (b[1] \div P2(16 - m)),
               ((b[3] * P2(m)) % 65536) + (b[2] \div P2(16 - m)), ((b[4] * P2(m)) % 65536) + (b[3] \div P2(16 - m))>>

RC == <<<<1, 0, 0, 0>>, <<32898, 0, 0, 0>>, <<32906, 0, 0, 32768>>,
       <<32768, 32768, 0, 32768>>, <<32907, 0, 0, 0>>, <<1, 32768, 0, 0>>,
       <<32897, 32768, 0, 32768>>, <<32777, 0, 0, 32768>>, <<138, 0, 0, 0>>,
       <<136, 0, 0, 0>>, <<32777, 32768, 0, 0>>, <<10, 32768, 0, 0>>,
       <<32907, 32768, 0, 0>>, <<139, 0, 0, 32768>>, <<32905, 0, 0, 32768>>,
       <<32771, 0, 0, 32768>>, <<32770, 0, 0, 32768>>, <<128, 0, 0, 32768>>,
       <<32778, 0, 0, 0>>, <<10, 32768, 0, 32768>>, <<32897, 32768, 0, 32768>>,
       <<32896, 0, 0, 32768>>, <<1, 32768, 0, 0>>, <<32776, 32768, 0, 32768>>>>
ROT == <<0, 1, 62, 28, 27, 36, 44, 6, 55, 20, 3, 10, 43, 25, 39, 41, 45, 15, 21, 8, 18, 2, 61, 56, 14>>       \* rotation offset of lane x + 5y (index x + 5y + 1)

(* state: sequence of 25 lanes, lane (x, y) at index x + 5y + 1 *)
At(s, x, y) == s[(x % 5) + 5 * (y % 5) + 1]
Round(s, ir) ==
    (* TLCEval: a function constructor is a lazy value in TLC - without forcing it, every application re-evaluates *)
    (* its body, which compounds over the 24 rounds                                                                 *)
    LET c == TLCEval([x \in 0..4 |-> XorL(XorL(XorL(XorL(At(s, x, 0), At(s, x, 1)), At(s, x, 2)), At(s, x, 3)), At(s, x, 4))])
        d == TLCEval([x \in 0..4 |-> XorL(c[(x + 4) % 5], RotL(c[(x + 1) % 5], 1))])
        th == TLCEval([i \in 1..25 |-> XorL(s[i], d[(i - 1) % 5])])
        (* rho and pi: B[y, 2x + 3y] = rot(A[x, y]) *)
        b == TLCEval([j \in 1..25 |-> LET X == (j - 1) % 5                      \* target coordinates (X, Y)
                                  Y == (j - 1) \div 5
                                  x == (X + 3 * Y) % 5                  \* source: X = y, Y = 2x + 3y  =>  x = (X + 3Y) mod 5, y = X
                                  y == X
                              IN  RotL(th[x + 5 * y + 1], ROT[x + 5 * y + 1])])
        ch == TLCEval([j \in 1..25 |-> LET x == (j - 1) % 5 y == (j - 1) \div 5 IN
                               XorL(b[j], AndL(NotL(b[((x + 1) % 5) + 5 * y + 1]), b[((x + 2) % 5) + 5 * y + 1]))])
    IN  TLCEval([j \in 1..25 |-> IF j = 1 THEN XorL(ch[1], RC[ir]) ELSE ch[j]])

RECURSIVE Perm(_, _)
Perm(s, ir) == IF ir > 24 THEN s ELSE Perm(Round(s, ir), ir + 1)

Rate == 136
(* pad10*1 with the SHAKE suffix: 0x1F ... 0x80 (one byte 0x9F when exactly one byte is missing) *)
PadShake(bytes) ==
    LET len == Len(bytes)
        q == Rate - (len % Rate)
    IN  IF q = 1 THEN bytes \o <<159>>
        ELSE bytes \o <<31>> \o [i \in 1..(q - 2) |-> 0] \o <<128>>

(* bytes off+1 .. off+136 as 17 lanes (little endian), XORed into the state *)
AbsorbBlock(s, p, off) ==
    TLCEval([j \in 1..25 |-> IF j > 17 THEN s[j]
                     ELSE LET o == off + 8 * (j - 1) IN
                          XorL(s[j], <<p[o + 1] + 256 * p[o + 2], p[o + 3] + 256 * p[o + 4],
                                       p[o + 5] + 256 * p[o + 6], p[o + 7] + 256 * p[o + 8]>>)])
RECURSIVE Absorb(_, _, _)
Absorb(s, p, off) == IF off >= Len(p) THEN s ELSE Absorb(Perm(AbsorbBlock(s, p, off), 1), p, off + Rate)

Shake256(bytes, outlen) ==
    LET s == Absorb(TLCEval([j \in 1..25 |-> ZeroL]), TLCEval(PadShake(bytes)), 0)
    IN  [i \in 1..outlen |-> LET lane == s[((i - 1) \div 8) + 1]
                                 limb == lane[(((i - 1) % 8) \div 2) + 1]
                             IN  IF (i - 1) % 2 = 0 THEN limb % 256 ELSE limb \div 256]
=============================================================================
