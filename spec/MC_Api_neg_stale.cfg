SPECIFICATION Spec
CONSTANTS
  Keys = {k1}
  Msgs = {m1, m2}
  HeightsC <- H11
  WatchAll = FALSE
  NoAdvance = FALSE
  ContinueFromLatest = FALSE
  ReleaseEarly = FALSE
  NoKey <- AbsNoKey
  NoSig <- AbsNoSig
  Fresh <- AbsFresh
  Signable <- AbsSignable
  Succ <- AbsSucc
  After <- AbsAfter
  SigOf <- AbsSigOf
  EntriesOf <- AbsEntries
  BadStates <- AbsBad
  WatchSet <- AbsWatchSet
INVARIANTS NoReuse

VIEW View
CHECK_DEADLOCK FALSE
