SPECIFICATION Spec
CHECK_DEADLOCK FALSE
\* known finding (KNOWN_FINDINGS.json, C12): the three deviating ls values are taken as the
\* library has them, so that the rest of the behaviour of those parameter sets is still judged.
\* The parameter-table judge (hook ots_params) always compares with the formula Ls.
CONSTANT LsEff <- LsWithKnownFindings
CONSTANT D_INTR <- Neg_D_INTR
CONSTANT MaxLevels <- EnvMaxLevels
CONSTANT MaxHeightAt <- EnvMaxHeightAt
CONSTANT MinWAt <- EnvMinWAt
