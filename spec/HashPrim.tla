------------------------------ MODULE HashPrim ------------------------------
(***************************************************************************)
(* The primitive layer: the only operators of the whole specification      *)
(* whose meaning is not written in TLA+.  They are overridden by           *)
(* HashPrim.java (TLC module override, class HashPrim next to this file).  *)
(* The TLA+ bodies below only state the TYPE of the result, so that SANY   *)
(* and readers see an ordinary definition; TLC never evaluates them.       *)
(* Pure TLA+ definitions of both hash functions are given in               *)
(* Sha256Pure.tla and KeccakPure.tla and checked against the overrides by  *)
(* MC_PrimPure (and both against python hashlib by MC_Prim).               *)
(***************************************************************************)
EXTENDS Naturals, Sequences

(* FIPS 180-4 SHA-256 of a byte string (tuple of 0..255); 32 bytes. *)
SHA256(bytes) == CHOOSE d \in [1..32 -> 0..255] : TRUE

(* FIPS 202 SHAKE256 of a byte string, first outlen bytes of the output. *)
SHAKE256(bytes, outlen) == CHOOSE d \in [1..outlen -> 0..255] : TRUE

(* lower-case hex string -> byte string, and back (JSON boundary only). *)
HexToBytes(str) == CHOOSE d \in Seq(0..255) : TRUE
BytesToHex(bytes) == CHOOSE s \in STRING : TRUE
=============================================================================
