--------------------------------- MODULE Hss ---------------------------------
(***************************************************************************)
(* HSS: RFC 8554 section 6 on top of the hash-sigs key conventions.        *)
(*   SpecKeygen(alg, params, seed)   -> [ok, sk, pk]                       *)
(*   SpecSignWith(alg, key, msg, trees) -> [ok, sig, next]                 *)
(*   SpecVerify(alg, msg, sig, pk)   -> BOOLEAN   (section 6.3)            *)
(* Build-time limits (C14) are the definitions MaxLevels, MaxHeightAt,     *)
(* MinWAt; configurations override them with "<-".                         *)
(***************************************************************************)
EXTENDS HssKey

MaxLevels == 8
MaxHeightAt(i) == 25
MinWAt(i) == 1

WithinLimits(params) ==
    /\ Len(params) >= 1 /\ Len(params) <= MaxLevels
    /\ \A i \in 1..Len(params) : /\ Height(params[i].lmsT) <= MaxHeightAt(i)
                                 /\ W(params[i].otsT) >= MinWAt(i)

ValidParams(params) ==
    /\ Len(params) >= 1 /\ Len(params) <= MaxLevelsRef
    /\ \A i \in 1..Len(params) : params[i].otsT \in OtsTypes /\ params[i].lmsT \in LmsTypes

HssPubLen(n) == 4 + LmsPubLen(n)
HssPub(L, lmsPub) == U32(L) \o lmsPub

(* ---- the trees on the path selected by the leaf digits qs ---- *)
(* level i's seed/identifier: the top one from the master seed, the others  *)
(* from the parent's seed/identifier and the parent's current leaf          *)
RECURSIVE SeedPathR(_, _, _, _, _)
SeedPathR(alg, cur, qs, i, L) ==
    IF i > L THEN <<>>
    ELSE <<cur>> \o (IF i = L THEN <<>>
                     ELSE SeedPathR(alg, ChildSeedAndI(alg, cur.seed, cur.I, qs[i]), qs, i + 1, L))
SeedPath(alg, masterSeed, qs) == SeedPathR(alg, TopSeed(alg, masterSeed), qs, 1, Len(qs))

TreeAt(alg, params, sp, i) == Tree(alg, params[i].otsT, params[i].lmsT, sp[i].I, sp[i].seed)

(* ---- key generation ---- *)
SpecKeygenWith(alg, params, seed, topTree) ==
    LET top == TopSeed(alg, seed)
    IN  [ok |-> TRUE,
         sk |-> FreshKey(params, seed),
         pk |-> HssPub(Len(params), LmsPub(params[1].lmsT, params[1].otsT, top.I, TreeRoot(topTree)))]

SpecKeygen(alg, params, seed) ==
    IF ~ValidParams(params) \/ Len(seed) # N(alg) THEN [ok |-> FALSE]
    ELSE LET top == TopSeed(alg, seed)
         IN  SpecKeygenWith(alg, params, seed,
                            Tree(alg, params[1].otsT, params[1].lmsT, top.I, top.seed))

(* ---- signing ---- *)
(* Named deviation UpperLevelRandomizerUsesChildTree: the randomizer C of   *)
(* the signature that level i makes over level i+1's public key is derived  *)
(* from the CHILD tree's seed and identifier with the PARENT's leaf index.  *)
SignOk(alg, key) ==
    LET k == ParseKey(alg, key) IN
    /\ k.ok
    /\ CtrInRange(k.ctr, Heights(k.params))

SpecSignWith(alg, key, msg, trees) ==
    LET k  == ParseKey(alg, key)
        ps == k.params
        L  == Len(ps)
        qs == LeafDigits(k.ctr, Heights(ps))
        sp == SeedPath(alg, k.seed, qs)
        pubOf(i) == LmsPub(ps[i].lmsT, ps[i].otsT, sp[i].I, TreeRoot(trees[i]))
        upper(i) == LmsSign(alg, ps[i].otsT, ps[i].lmsT, sp[i].I, sp[i].seed, trees[i], qs[i],
                            Randomizer(alg, sp[i + 1].seed, sp[i + 1].I, qs[i]), pubOf(i + 1))
                    \o pubOf(i + 1)
        bottom == LmsSign(alg, ps[L].otsT, ps[L].lmsT, sp[L].I, sp[L].seed, trees[L], qs[L],
                          Randomizer(alg, sp[L].seed, sp[L].I, qs[L]), msg)
    IN  [ok |-> TRUE,
         sig |-> U32(L - 1) \o Cat([i \in 1..(L - 1) |-> upper(i)]) \o bottom,
         next |-> SuccKey(alg, key)]

TreesFor(alg, key) ==
    LET k  == ParseKey(alg, key)
        qs == LeafDigits(k.ctr, Heights(k.params))
        sp == SeedPath(alg, k.seed, qs)
    IN  TLCEval([i \in 1..Len(k.params) |-> TreeAt(alg, k.params, sp, i)])

SpecSign(alg, key, msg) ==
    IF ~SignOk(alg, key) THEN [ok |-> FALSE]
    ELSE SpecSignWith(alg, key, msg, TreesFor(alg, key))

(* ---- RFC 8554 section 6.3 verification, total on arbitrary bytes ---- *)
(* parse Nspk signed public keys then the final LMS signature; exact length *)
RECURSIVE ParseSpksR(_, _, _, _)
ParseSpksR(alg, b, off, remaining) ==
    IF remaining = 0 THEN [ok |-> TRUE, off |-> off, sigs |-> <<>>, pubs |-> <<>>]
    ELSE LET s == ParseLmsSigAt(alg, b, off)
         IN  IF ~s.ok THEN NoParse
             ELSE LET pOff == off + s.len
                      pLen == LmsPubLen(N(alg))
                  IN  IF ~HasBytes(b, pOff, 8) THEN NoParse
                      ELSE LET p == IF HasBytes(b, pOff, pLen) THEN ParseLmsPub(alg, Slice(b, pOff, pLen))
                                    ELSE NoParse
                           IN  IF ~p.ok THEN NoParse
                               ELSE LET rest == ParseSpksR(alg, b, pOff + pLen, remaining - 1)
                                    IN  IF ~rest.ok THEN NoParse
                                        ELSE [ok |-> TRUE, off |-> rest.off,
                                              sigs |-> <<s>> \o rest.sigs,
                                              pubs |-> <<[parsed |-> p, bytes |-> Slice(b, pOff, pLen)]>> \o rest.pubs]

ParseHssSig(alg, b) ==
    IF Len(b) < 4 THEN NoParse
    ELSE LET nspk == DecU32(Slice(b, 0, 4))
         IN  IF nspk = Huge \/ nspk >= MaxLevels THEN NoParse      \* (not nspk + 1: 0x7fffffff + 1 overflows TLC's integers)
             ELSE LET spks == ParseSpksR(alg, b, 4, nspk)
                  IN  IF ~spks.ok THEN NoParse
                      ELSE LET last == ParseLmsSigAt(alg, b, spks.off)
                           IN  IF ~last.ok THEN NoParse
                               ELSE IF spks.off + last.len # Len(b) THEN NoParse   \* exact length
                               ELSE [ok |-> TRUE, nspk |-> nspk, sigs |-> spks.sigs \o <<last>>,
                                     pubs |-> spks.pubs]

ParseHssPub(alg, b) ==
    IF Len(b) < 4 THEN NoParse
    ELSE LET L == DecU32(Slice(b, 0, 4))
             p == ParseLmsPub(alg, Drop(b, 4))
         IN  IF L = Huge \/ L < 1 \/ L > MaxLevels \/ ~p.ok THEN NoParse
             ELSE [ok |-> TRUE, L |-> L, lms |-> p]

RECURSIVE VerifyChainR(_, _, _, _, _)
(* key = parsed LMS public key for sigs[i]; the message of sigs[i] is the   *)
(* serialised next public key, or msg for the last one                      *)
VerifyChainR(alg, hs, key, i, msg) ==
    IF i = Len(hs.sigs) THEN LmsVerifyParsed(alg, hs.sigs[i], key, msg)
    ELSE /\ LmsVerifyParsed(alg, hs.sigs[i], key, hs.pubs[i].bytes)
         /\ VerifyChainR(alg, hs, hs.pubs[i].parsed, i + 1, msg)

SpecVerify(alg, msg, sig, pk) ==
    LET pp == ParseHssPub(alg, pk)
        hs == ParseHssSig(alg, sig)
    IN  /\ pp.ok
        /\ hs.ok
        /\ hs.nspk + 1 = pp.L
        /\ VerifyChainR(alg, hs, pp.lms, 1, msg)

(* ---- format grammar: every field of a signature for a parameter list ---- *)
(* sequence of [name, level, off, len]; level 1 = top.  Used to generate    *)
(* mutation scenarios and to check the RFC length formulas.                 *)
LmsSigFields(n, otsT, lmsT, level, base) ==
    LET p == P(n, W(otsT)) h == Height(lmsT) IN
    << [name |-> "q",       level |-> level, off |-> base,                     len |-> 4],
       [name |-> "otstype", level |-> level, off |-> base + 4,                 len |-> 4],
       [name |-> "C",       level |-> level, off |-> base + 8,                 len |-> n],
       [name |-> "y",       level |-> level, off |-> base + 8 + n,             len |-> n * p],
       [name |-> "lmstype", level |-> level, off |-> base + 8 + n + n * p,     len |-> 4],
       [name |-> "path",    level |-> level, off |-> base + 12 + n + n * p,    len |-> n * h] >>
LmsPubFields(n, level, base) ==
    << [name |-> "pub_lmstype", level |-> level, off |-> base,      len |-> 4],
       [name |-> "pub_otstype", level |-> level, off |-> base + 4,  len |-> 4],
       [name |-> "pub_I",       level |-> level, off |-> base + 8,  len |-> 16],
       [name |-> "pub_root",    level |-> level, off |-> base + 24, len |-> n] >>

RECURSIVE SigLayoutR(_, _, _, _)
SigLayoutR(n, params, i, base) ==
    LET sf == LmsSigFields(n, params[i].otsT, params[i].lmsT, i, base)
        sl == LmsSigLen(n, params[i].otsT, params[i].lmsT)
    IN  IF i = Len(params) THEN sf
        ELSE sf \o LmsPubFields(n, i + 1, base + sl) \o SigLayoutR(n, params, i + 1, base + sl + LmsPubLen(n))
SigLayout(n, params) ==
    <<[name |-> "nspk", level |-> 0, off |-> 0, len |-> 4]>> \o SigLayoutR(n, params, 1, 4)
HssSigLen(n, params) ==
    LET last == SigLayout(n, params)[Len(SigLayout(n, params))] IN last.off + last.len
(* Named deviation SignaturesLongerThan65535Refused (KNOWN_FINDINGS.json, property C01): the      *)
(* library keeps signatures in containers whose length is a 16-bit number; parameter lists whose  *)
(* signatures are longer (seven or eight levels of W1) are refused by keygen and signing.         *)
Representable(n, params) == HssSigLen(n, params) <= 65535

PubLayout(n) ==
    <<[name |-> "L", level |-> 0, off |-> 0, len |-> 4]>> \o LmsPubFields(n, 1, 4)
=============================================================================
