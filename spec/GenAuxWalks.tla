----------------------------- MODULE GenAuxWalks -----------------------------
(***************************************************************************)
(* Scenario generation for C10 (spec -> implementation): behaviours of the *)
(* HssAux model - one caller-owned buffer handed to key generation and     *)
(* signing of two keys, and tampered with / truncated / padded / replaced  *)
(* between the calls - are produced by TLC in simulation mode and printed  *)
(* as JSON; tools/props.py turns every step into a command for the harness *)
(* (lengths in hash units become bytes, abstract tampering becomes a bit   *)
(* flip at the offset the logged level word implies).  The judges of       *)
(* TraceBytes then require every keygen / sign result of the real library  *)
(* to equal the result WITHOUT auxiliary data.                             *)
(***************************************************************************)
EXTENDS MC_Aux, Json

VARIABLES hist, phase, sid
CONSTANTS WalkLen,    \* length of a free walk
          Sids        \* {0}: free walks (simulation); a set of indices into Scripts: scripted walks (exhaustive)

gvars == <<vars, hist, phase, sid>>

(* Scripted histories: each step fixes the action and some of its arguments; TLC fills in the rest *)
(* (all possibilities) and the abstract buffer shape before every step.  The first three are the  *)
(* counterexamples of the negative models (no MAC check, fresh buffer not cleared) and a history  *)
(* in which the buffer changes owner between two signatures of the same key.                      *)
Scripts == <<
  << [a |-> "new_zero", c |-> 45], [a |-> "keygen", k |-> "a", aux |-> TRUE], [a |-> "nop"], [a |-> "sign", k |-> "a", aux |-> TRUE],
     [a |-> "new_zero", c |-> 45], [a |-> "keygen", k |-> "b", aux |-> TRUE], [a |-> "nop"], [a |-> "sign", k |-> "a", aux |-> TRUE],
     [a |-> "nop"], [a |-> "sign", k |-> "b", aux |-> TRUE], [a |-> "nop"], [a |-> "sign", k |-> "a", aux |-> TRUE] >>,
  << [a |-> "new_zero", c |-> 45], [a |-> "keygen", k |-> "a", aux |-> TRUE], [a |-> "tamper_data"], [a |-> "sign", k |-> "a", aux |-> TRUE],
     [a |-> "nop"], [a |-> "keygen", k |-> "a", aux |-> TRUE], [a |-> "tamper_mac"], [a |-> "sign", k |-> "a", aux |-> TRUE] >>,
  << [a |-> "new_garbage", m |-> FALSE], [a |-> "sign", k |-> "a", aux |-> TRUE], [a |-> "nop"], [a |-> "sign", k |-> "a", aux |-> TRUE],
     [a |-> "clear_marker"], [a |-> "keygen", k |-> "a", aux |-> TRUE], [a |-> "nop"], [a |-> "sign", k |-> "a", aux |-> TRUE] >>,
  << [a |-> "new_zero", c |-> 45], [a |-> "sign", k |-> "a", aux |-> TRUE], [a |-> "nop"], [a |-> "sign", k |-> "a", aux |-> TRUE],
     [a |-> "nop"], [a |-> "keygen", k |-> "a", aux |-> TRUE], [a |-> "clear_marker"], [a |-> "keygen", k |-> "a", aux |-> TRUE],
     [a |-> "nop"], [a |-> "sign", k |-> "b", aux |-> TRUE], [a |-> "nop"], [a |-> "sign", k |-> "a", aux |-> TRUE] >>,
  << [a |-> "new_zero", c |-> 45], [a |-> "keygen", k |-> "a", aux |-> TRUE], [a |-> "truncate"], [a |-> "sign", k |-> "a", aux |-> TRUE],
     [a |-> "pad"], [a |-> "sign", k |-> "a", aux |-> TRUE], [a |-> "nop"], [a |-> "keygen", k |-> "a", aux |-> TRUE] >>,
  << [a |-> "new_zero", c |-> 43], [a |-> "keygen", k |-> "a", aux |-> TRUE], [a |-> "tamper_word"], [a |-> "sign", k |-> "a", aux |-> TRUE],
     [a |-> "tamper_word", s |-> <<1, 5>>], [a |-> "sign", k |-> "a", aux |-> TRUE] >>,
  << [a |-> "new_zero", c |-> 1], [a |-> "keygen", k |-> "a", aux |-> TRUE], [a |-> "pad"], [a |-> "sign", k |-> "a", aux |-> TRUE],
     [a |-> "new_zero", c |-> 3], [a |-> "keygen", k |-> "a", aux |-> TRUE], [a |-> "nop"], [a |-> "sign", k |-> "a", aux |-> TRUE] >>,
  (* cached nodes damaged AND the buffer cut at / inside its MAC (a buffer without a complete MAC authenticates nothing) *)
  << [a |-> "new_zero", c |-> 45], [a |-> "keygen", k |-> "a", aux |-> TRUE], [a |-> "tamper_data"], [a |-> "sign", k |-> "a", aux |-> TRUE],
     [a |-> "truncate"], [a |-> "sign", k |-> "a", aux |-> TRUE], [a |-> "nop"], [a |-> "keygen", k |-> "a", aux |-> TRUE] >>
>>
TargetLen == IF sid = 0 THEN WalkLen ELSE Len(Scripts[sid])
Matches(rec) ==
    IF sid = 0 THEN TRUE
    ELSE LET st == Scripts[sid][Len(hist) + 1] IN \A f \in DOMAIN st : f \in DOMAIN rec /\ rec[f] = st[f]
SetToSeq(S) == LET RECURSIVE R(_) R(T) == IF T = {} THEN <<>> ELSE LET x == CHOOSE y \in T : \A z \in T : y <= z IN <<x>> \o R(T \ {x}) IN R(S)
(* every record carries the buffer's abstract shape BEFORE the step *)
Log(rec) == Matches(rec) /\ hist' = Append(hist, rec @@ [cap |-> buf.cap, word |-> SetToSeq(buf.word), marker |-> buf.marker])

GInit == Init /\ hist = <<>> /\ phase = "env" /\ sid \in Sids

(* Simulation picks uniformly among successor states: library calls and what happens to the   *)
(* buffer in between alternate, and the lengths offered are the ones around the thresholds of *)
(* hss_optimal_aux_level and of the buffer's current layout.                                  *)
ZeroCaps == {1, 3, 12, 43, 45}
CutCaps == {c \in 0..Cap : c \in {0, 1, 2, Size(buf.word) - 1, Size(buf.word) - 2, buf.cap - 1, Size(buf.word)}}
PadCaps == {c \in 0..Cap : c \in {buf.cap + 1, Size(buf.word), Cap}}
GNext ==
    /\ Len(hist) < TargetLen /\ UNCHANGED sid
    /\ \/ /\ phase = "lib" /\ phase' = "env"
          /\ \/ \E k \in Keys : Keygen(k, TRUE) /\ Log([a |-> "keygen", k |-> k, aux |-> TRUE])
             \/ \E k \in Keys : Sign(k, TRUE) /\ Log([a |-> "sign", k |-> k, aux |-> TRUE])
             \/ \E k \in {"a"} : Sign(k, FALSE) /\ Log([a |-> "sign", k |-> k, aux |-> FALSE])
       \/ /\ phase = "env" /\ phase' = "lib"
          /\ \/ \E c \in ZeroCaps : NewZero(c) /\ Log([a |-> "new_zero", c |-> c])
             \/ \E c \in CutCaps : Truncate(c) /\ Log([a |-> "truncate", c |-> c])
             \/ \E c \in PadCaps : Pad(c) /\ Log([a |-> "pad", c |-> c])
             \/ \E c \in {44}, m \in BOOLEAN : NewGarbage(c, m) /\ buf'.word \in {Optimal(c), {}, Levels}
                                                       /\ Log([a |-> "new_garbage", c |-> c, m |-> m, s |-> SetToSeq(buf'.word)])
             \/ \E lv \in Levels : TamperData(lv) /\ Log([a |-> "tamper_data", lv |-> lv])
             \/ \E S \in SUBSET Levels : TamperWord(S) /\ Log([a |-> "tamper_word", s |-> SetToSeq(S)])
             \/ TamperMac /\ Log([a |-> "tamper_mac"])
             \/ ClearMarker /\ Log([a |-> "clear_marker"])
             \/ (UNCHANGED vars /\ Log([a |-> "nop"]))       \* the buffer is handed on untouched

GSpec == GInit /\ [][GNext]_gvars

WalkComplete == (Len(hist) = TargetLen) => PrintT(<<"WALK", ToJson([sid |-> sid, steps |-> hist])>>)
=============================================================================
