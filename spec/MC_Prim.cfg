
