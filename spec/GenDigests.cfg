
