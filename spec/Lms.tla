--------------------------------- MODULE Lms ---------------------------------
(***************************************************************************)
(* LMS: RFC 8554 section 5 (Algorithms 5, 6, 6a) with the hash-sigs leaf   *)
(* key derivation.  Type codes 5..9 (h = 5,10,15,20,25) for every hash     *)
(* variant, plus code 1 = the 4-leaf tree (h = 2) that the library has for *)
(* its own tests and that the verification hook enables (not an RFC type). *)
(***************************************************************************)
EXTENDS LmOts

LmsTypes == {1, 5, 6, 7, 8, 9}
Height(t) == CASE t = 1 -> 2 [] t = 5 -> 5 [] t = 6 -> 10 [] t = 7 -> 15 [] t = 8 -> 20 [] t = 9 -> 25
TypeOfHeight(h) == CASE h = 2 -> 1 [] h = 5 -> 5 [] h = 10 -> 6 [] h = 15 -> 7 [] h = 20 -> 8 [] h = 25 -> 9

D_LEAF == <<130, 130>>
D_INTR == <<131, 131>>

LeafHash(alg, I, r, otsPub)        == H(alg, I \o U32(r) \o D_LEAF \o otsPub)
InnerHash(alg, I, r, left, right)  == H(alg, I \o U32(r) \o D_INTR \o left \o right)

(* The complete tree as a function from node number 1..2^(h+1)-1 to its    *)
(* value T[r] (RFC 8554 section 5.3), built level by level.                *)
RECURSIVE TreeLevelsR(_, _, _, _)
(* lower = values of depth d+1 (sequence of 2^(d+1) strings); returns the   *)
(* sequence <<level 0, ..., level d+1>> where level k is a sequence         *)
TreeLevelsR(alg, I, d, lowerLevels) ==
    IF d < 0 THEN lowerLevels
    ELSE LET low == lowerLevels[1]
             cur == TLCEval([k \in 1..Pow2(d) |->
                        InnerHash(alg, I, Pow2(d) + k - 1, low[2 * k - 1], low[2 * k])])
         IN  TreeLevelsR(alg, I, d - 1, <<cur>> \o lowerLevels)

Tree(alg, otsT, lmsT, I, seed) ==
    LET h == Height(lmsT)
        leaves == TLCEval([k \in 1..Pow2(h) |->
                      LeafHash(alg, I, Pow2(h) + k - 1, OtsPub(alg, otsT, I, k - 1, seed))])
        levels == TreeLevelsR(alg, I, h - 1, <<leaves>>)      \* levels[d+1] = depth d
        depth(r) == Log2Floor(r)
    IN  TLCEval([r \in 1..(Pow2(h + 1) - 1) |-> levels[depth(r) + 1][r - Pow2(depth(r)) + 1]])

TreeRoot(tree) == tree[1]

(* authentication path of leaf q: siblings bottom-up *)
Sibling(r) == IF r % 2 = 0 THEN r + 1 ELSE r - 1
AuthPathNodes(h, q) == [k \in 1..h |-> Sibling((Pow2(h) + q) \div Pow2(k - 1))]
AuthPath(tree, h, q, n) == CatFixed([k \in 1..h |-> tree[AuthPathNodes(h, q)[k]]], h, n)

(* ---- serialisations ---- *)
LmsPubLen(n) == 4 + 4 + 16 + n
LmsPub(lmsT, otsT, I, root) == U32(lmsT) \o U32(otsT) \o I \o root
LmsSigLen(n, otsT, lmsT) == 4 + OtsSigLen(n, otsT) + 4 + n * Height(lmsT)

(* Algorithm 5 (signing with leaf q, randomizer C supplied by the caller)  *)
LmsSign(alg, otsT, lmsT, I, seed, tree, q, C, msg) ==
    U32(q) \o OtsSign(alg, otsT, I, q, seed, C, msg) \o U32(lmsT)
           \o AuthPath(tree, Height(lmsT), q, N(alg))

(* ---- total parsers ---- *)
NoParse == [ok |-> FALSE]

(* parse an LMS public key that must be EXACTLY b *)
ParseLmsPub(alg, b) ==
    IF Len(b) < 8 THEN NoParse
    ELSE LET lmsT == DecU32(Slice(b, 0, 4))
             otsT == DecU32(Slice(b, 4, 4))
         IN  IF lmsT \notin LmsTypes \/ otsT \notin OtsTypes THEN NoParse
             ELSE IF Len(b) # LmsPubLen(N(alg)) THEN NoParse
             ELSE [ok |-> TRUE, lmsT |-> lmsT, otsT |-> otsT,
                   I |-> Slice(b, 8, 16), root |-> Slice(b, 24, N(alg))]

(* Algorithm 6a steps 1-2: parse an LMS signature that starts at offset    *)
(* off of b; length driven.  Returns its length too.                       *)
ParseLmsSigAt(alg, b, off) ==
    LET n == N(alg) IN
    IF ~HasBytes(b, off, 8) THEN NoParse
    ELSE LET qv   == DecU32(Slice(b, off, 4))
             otsT == DecU32(Slice(b, off + 4, 4))
         IN  IF otsT \notin OtsTypes THEN NoParse
             ELSE LET otsLen == OtsSigLen(n, otsT)
                      tOff   == off + 4 + otsLen
                  IN  IF ~HasBytes(b, off, 4 + otsLen + 4) THEN NoParse
                      ELSE LET lmsT == DecU32(Slice(b, tOff, 4))
                           IN  IF lmsT \notin LmsTypes THEN NoParse
                               ELSE LET h == Height(lmsT)
                                        total == 4 + otsLen + 4 + n * h
                                    IN  IF ~HasBytes(b, off, total) THEN NoParse
                                        ELSE IF qv = Huge \/ qv >= Pow2(h) THEN NoParse
                                        ELSE [ok |-> TRUE, len |-> total, q |-> qv,
                                              otsT |-> otsT, lmsT |-> lmsT,
                                              C |-> Slice(b, off + 8, n),
                                              y |-> Slice(b, off + 8 + n, n * P(n, W(otsT))),
                                              path |-> Slice(b, tOff + 4, n * h)]

(* Algorithm 6a step 3-4 + Algorithm 6: candidate root from a parsed sig   *)
RECURSIVE ClimbR(_, _, _, _, _, _)
ClimbR(alg, I, node, tmp, path, k) ==
    IF node = 1 THEN tmp
    ELSE LET n == N(alg)
             sib == SubSeq(path, (k - 1) * n + 1, k * n)
             parent == node \div 2
             nxt == IF node % 2 = 1 THEN InnerHash(alg, I, parent, sib, tmp)
                    ELSE InnerHash(alg, I, parent, tmp, sib)
         IN  ClimbR(alg, I, parent, nxt, path, k + 1)

LmsCandidateRoot(alg, I, ps, msg) ==
    LET h == Height(ps.lmsT)
        Kc == OtsCandidate(alg, ps.otsT, I, ps.q, ps.C, ps.y, msg)
        node == Pow2(h) + ps.q
    IN  ClimbR(alg, I, node, LeafHash(alg, I, node, Kc), ps.path, 1)

(* Algorithm 6 / 6a: ps = parsed signature, pp = parsed public key         *)
LmsVerifyParsed(alg, ps, pp, msg) ==
    /\ ps.ok /\ pp.ok
    /\ ps.otsT = pp.otsT
    /\ ps.lmsT = pp.lmsT
    /\ LmsCandidateRoot(alg, pp.I, ps, msg) = pp.root
=============================================================================
