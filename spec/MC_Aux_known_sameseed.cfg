SPECIFICATION Spec
CONSTANTS
  Keys <- KeysAA2
  SeedOf <- SeedOfAB
  H = 3
  Cap = 13
  CheckMac = TRUE
  ClearFresh = TRUE
INVARIANTS TypeOK AuxTransparent OnlyAuthenticatedIsRead KeygenLeavesLayout TooSmallStaysFresh SignNeverWritesMac
CHECK_DEADLOCK FALSE
