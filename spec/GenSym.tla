------------------------------- MODULE GenSym -------------------------------
(***************************************************************************)
(* Scenario generation for C02 from the symbolic model (spec -> impl):     *)
(* recombinations of the components of released signatures, written as     *)
(* ndjson to IOEnv.GEN_OUT.  Every component is named by a released        *)
(* signature that contains it (key, counter, level), so tools/props.py can *)
(* cut the same component out of the BYTES the real library released.      *)
(*   - all contiguous segments of released chains (the accepted ones)      *)
(*   - every recombination that differs from one of them in exactly one    *)
(*     component (the near misses: every single splice / substitution)     *)
(*   - IOEnv.GEN_SAMPLE recombinations that differ in two components       *)
(* Each line carries the symbolic verdict; TraceBytes requires             *)
(*   symbolic verdict = SpecVerify(bytes) = verdict of the real code.      *)
(***************************************************************************)
EXTENDS HssSym, Json, IOUtils, SequencesExt, Randomization

RepSig(s) == CHOOSE x \in Keys \X Ctrs \X (1..Levels) : RelSig(x[1], x[2], x[3]) = s
RepTree(t) == CHOOSE x \in Keys \X Ctrs \X (1..Levels) : TreeOf(x[1], x[2], x[3]) = t
EncSig(s) == LET r == RepSig(s) IN [k |-> r[1], c |-> r[2], i |-> r[3]]
EncTree(t) == LET r == RepTree(t) IN [k |-> r[1], c |-> r[2], i |-> r[3]]
Enc(t) ==
    [nspk |-> t.nspk,
     spks |-> [i \in 1..t.nspk |-> [sig |-> EncSig(t.spks[i].sig), pub |-> EncTree(t.spks[i].pub)]],
     last |-> EncSig(t.last),
     msg  |-> IF t.msg[1] = "msg" THEN [kind |-> "m", k |-> t.msg[2][2], c |-> t.msg[2][3], i |-> 0]
              ELSE [kind |-> "pub"] @@ EncTree(t.msg[2]),
     pk   |-> [L |-> t.pk.L] @@ EncTree(t.pk.tree),
     accept |-> Accept(t), ideal |-> Ideal(t)]

IdealTerms == {Segment(x[1], x[2], x[3], x[4]) : x \in {y \in Keys \X Ctrs \X (1..Levels) \X (1..Levels) : y[3] <= y[4] /\ y[4] - y[3] <= MaxNspk}}
OneOff(s) ==
       {[s EXCEPT !.last = x] : x \in SigComps}
  \cup {[s EXCEPT !.msg = x] : x \in Contents}
  \cup {[s EXCEPT !.pk.L = x] : x \in 1..(MaxNspk + 2)}
  \cup {[s EXCEPT !.pk.tree = x] : x \in Trees}
  \cup UNION {{[s EXCEPT !.spks[i].sig = x] : x \in SigComps} : i \in 1..s.nspk}
  \cup UNION {{[s EXCEPT !.spks[i].pub = x] : x \in PubComps} : i \in 1..s.nspk}
NearMisses == UNION {OneOff(s) : s \in IdealTerms}
TwoOff == UNION {OneOff(s) : s \in NearMisses}
Sample == LET k == atoi(IOEnv.GEN_SAMPLE) IN IF k >= Cardinality(TwoOff) THEN TwoOff ELSE RandomSubset(k, TwoOff)
Chosen == IdealTerms \cup NearMisses \cup Sample

Lines == LET ts == SetToSeq(Chosen) IN [i \in 1..Len(ts) |-> Enc(ts[i])]
(* the characterisation, once more, on exactly the recombinations handed to the implementation *)
ASSUME \A t \in Chosen : Accept(t) <=> Ideal(t)
ASSUME ndJsonSerialize(IOEnv.GEN_OUT, Lines)

(* the module under it declares a variable: a one-state behaviour keeps TLC content *)
GInit == term = CHOOSE t \in IdealTerms : TRUE
GSpec == GInit /\ [][UNCHANGED term]_term
=============================================================================
