------------------------------ MODULE GenLayout ------------------------------
(* Scenario generation, format grammar: for every (alg, parameter list) in  *)
(* IOEnv.GEN_IN write the field layout of its signatures and public key      *)
(* (name, level, offset, length - from Hss!SigLayout / PubLayout) to          *)
(* IOEnv.GEN_OUT.  The mutation scenarios of C02/C06 are built from these    *)
(* offsets, so "every field of the grammar" is enumerated by the spec.       *)
EXTENDS Hss, Json, IOUtils

In == ndJsonDeserialize(IOEnv.GEN_IN)
ParamsOf(e) == [i \in 1..Len(e.params) |->
                  [otsT |-> TypeOfW(e.params[i][1]), lmsT |-> TypeOfHeight(e.params[i][2])]]
Out == [i \in 1..Len(In) |->
          LET n == N(In[i].alg) ps == ParamsOf(In[i]) IN
          [alg |-> In[i].alg, params |-> In[i].params,
           sig_len |-> HssSigLen(n, ps), pk_len |-> HssPubLen(n),
           sig_fields |-> SigLayout(n, ps), pk_fields |-> PubLayout(n)]]
ASSUME ndJsonSerialize(IOEnv.GEN_OUT, Out)
=============================================================================
