------------------------------ MODULE TraceBytes ------------------------------
(***************************************************************************)
(* Trace validation, data layer: every event recorded from the real        *)
(* library (harness/src/main.rs) is judged against the executable          *)
(* reference (Hss.tla, Aux.tla, HssKey.tla, LmOts.tla).  One event per     *)
(* step; a verdict record is appended for every deviation, so that ALL     *)
(* deviating events of a trace are reported.  The only state besides the   *)
(* position is a cache of Merkle trees (a lifetime walk re-uses them).     *)
(*                                                                         *)
(* The judges are total: an outcome the specification has no value for     *)
(* (a panic, a hang, an unknown result string) is itself a verdict.        *)
(***************************************************************************)
EXTENDS Aux, Json, IOUtils, SecretTable

VARIABLES l,        \* index of the next event
          bad,      \* sequence of verdict records
          cache     \* sequence of [key, tree], most recently used first

vars == <<l, bad, cache>>

Rec == ndJsonDeserialize(IOEnv.TRACE)
CacheSize == 12

(* Build-time limits of the library under test (C14), handed over by tools/vlib.py in the       *)
(* environment; the configuration substitutes them for Hss!MaxLevels / MaxHeightAt / MinWAt.     *)
EnvNat(name, default) == IF name \in DOMAIN IOEnv THEN atoi(IOEnv[name]) ELSE default
EnvMaxLevels == EnvNat("LIM_LEVELS", 8)
EnvMaxHeightAt(i) == EnvNat("LIM_H" \o ToString(i), 25)
EnvMinWAt(i) == EnvNat("LIM_W" \o ToString(i), 1)

B(x) == HexToBytes(x)

Verdict(kind, exp, got) == [kind |-> kind, exp |-> exp, got |-> got]

(* first differing 0-based offset of two byte strings *)
FirstDiff(a, b) ==
    LET m == IF Len(a) < Len(b) THEN Len(a) ELSE Len(b)
        d == {i \in 1..m : a[i] # b[i]}
    IN  IF d = {} THEN m ELSE (CHOOSE i \in d : \A j \in d : i <= j) - 1

CmpBytes(kind, exp, gotHex) ==
    LET got == B(gotHex) IN
    IF got = exp THEN <<>>
    ELSE LET off == FirstDiff(exp, got)
         IN  <<[kind |-> kind,
                exp |-> [len |-> Len(exp), hex |-> BytesToHex(exp)],
                got |-> [len |-> Len(got), first_diff |-> off]]>>

CmpVal(kind, exp, got) == IF exp = got THEN <<>> ELSE <<Verdict(kind, exp, got)>>

(* ---- parameter lists as the harness writes them: [[w, h], ...] ---- *)
KnownW == {1, 2, 4, 8}
KnownH == {2, 5, 10, 15, 20, 25}
ParamsOf(e) == [i \in 1..Len(e.params) |->
                  [otsT |-> TypeOfW(e.params[i][1]), lmsT |-> TypeOfHeight(e.params[i][2])]]

(* ---- tree cache ---- *)
TreeKey(alg, otsT, lmsT, I, seed) == <<alg, otsT, lmsT, I, seed>>
CacheHas(c, key) == \E i \in 1..Len(c) : c[i].key = key
CacheGet(c, key) == c[CHOOSE i \in 1..Len(c) : c[i].key = key].tree
GetTree(c, alg, otsT, lmsT, I, seed) ==
    LET key == TreeKey(alg, otsT, lmsT, I, seed)
    IN  IF CacheHas(c, key) THEN CacheGet(c, key) ELSE Tree(alg, otsT, lmsT, I, seed)
(* put entries (sequence of [key, tree]) in front, drop duplicates, keep CacheSize *)
CachePut(c, entries) ==
    LET keys == {entries[i].key : i \in 1..Len(entries)}
        rest == SelectSeq(c, LAMBDA x : x.key \notin keys)
        all  == entries \o rest
    IN  IF Len(all) > CacheSize THEN SubSeq(all, 1, CacheSize) ELSE all

(* the trees on a key's current path, with their cache entries *)
PathTrees(c, alg, k) ==
    LET qs == LeafDigits(k.ctr, Heights(k.params))
        sp == SeedPath(alg, k.seed, qs)
        L  == Len(k.params)
    IN  TLCEval([i \in 1..L |->
            [key  |-> TreeKey(alg, k.params[i].otsT, k.params[i].lmsT, sp[i].I, sp[i].seed),
             tree |-> GetTree(c, alg, k.params[i].otsT, k.params[i].lmsT, sp[i].I, sp[i].seed)]])

(* a note: a parameter list RFC 8554 allows was refused because its signatures exceed 65535 bytes *)
LongSigNote(levels) == [kind |-> "long_signature_refused", exp |-> "ok", got |-> "err", levels |-> levels]

NoPanic(e) == IF e.res = "panic" THEN <<Verdict("panic", "ok|err", e.panic)>> ELSE <<>>

(* ======================================================================= *)
(* keygen                                                                  *)
(* ======================================================================= *)
JudgeKeygen(e, c) ==
    LET alg    == e.alg
        n      == N(alg)
        params == ParamsOf(e)
        seed   == B(e.seed)
        legal  == ValidParams(params) /\ Len(seed) = n
    IN  IF ~legal THEN
            [v |-> IF e.res = "err" THEN <<>> ELSE <<Verdict("keygen_bad_params", "err", e.res)>>, c |-> c]
        ELSE
        LET top   == TopSeed(alg, seed)
            tkey  == TreeKey(alg, params[1].otsT, params[1].lmsT, top.I, top.seed)
            tree  == GetTree(c, alg, params[1].otsT, params[1].lmsT, top.I, top.seed)
            exp   == SpecKeygenWith(alg, params, seed, tree)
            repr  == Representable(n, params)
            inLim == WithinLimits(params) /\ repr
            auxIn == B(e.aux_in)
            h     == Height(params[1].lmsT)
            auxV  == IF e.has_aux /\ IsFreshAux(auxIn) /\ e.res = "ok" THEN
                         CmpVal("aux_len", AuxUsedLen(Len(auxIn), h, n), e.aux_len)
                         \o (IF e.aux_len = AuxUsedLen(Len(auxIn), h, n)
                             THEN CmpBytes("aux_layout", SpecAuxAfterKeygen(alg, seed, tree, h, Len(auxIn)),
                                           BytesToHex(Take(B(e.aux_out), e.aux_len)))
                             ELSE <<>>)
                     ELSE <<>>
            v == IF ~inLim THEN        \* beyond the build limits: refused with an error (C14)
                     (IF e.res = "err" THEN (IF repr THEN <<>> ELSE <<LongSigNote(Len(params))>>)
                      ELSE <<Verdict("keygen_beyond_limits", "err", e.res)>> \o NoPanic(e))
                 ELSE IF e.res = "ok" THEN CmpBytes("keygen_sk", exp.sk, e.sk) \o CmpBytes("keygen_pk", exp.pk, e.pk) \o auxV
                 ELSE <<Verdict("keygen_result", "ok", e.res)>> \o NoPanic(e)
        IN  [v |-> v, c |-> IF inLim /\ e.res = "ok" THEN CachePut(c, <<[key |-> tkey, tree |-> tree]>>) ELSE c]

(* ======================================================================= *)
(* sign                                                                    *)
(* ======================================================================= *)
(* the callback protocol as observed: number of invocations, argument      *)
CbVerdicts(e, expectCb, next) ==
    IF e.api # "bytes" THEN <<>>          \* SigningKey's own closure is not observable; mem_after is
    ELSE IF ~expectCb THEN CmpVal("cb_count", 0, e.cb_n)
    ELSE CmpVal("cb_count", 1, e.cb_n)
         \o (IF e.cb_n >= 1 THEN CmpBytes("cb_arg", next, e.cb[1].arg) ELSE <<>>)

(* "light" judging for shapes whose trees are too big to rebuild in TLC (H10 and taller): the    *)
(* callback protocol, the successor key, the signature's length, level count, type codes, leaf    *)
(* indices, embedded tree identifiers and every randomizer C are checked against the reference;   *)
(* chain values and path nodes are covered by the SpecVerify of the verify event that follows.    *)
Light(e) == "light" \in DOMAIN e /\ e.light = TRUE
JudgeSignLight(e) ==
    LET alg == e.alg
        key == B(e.key)
        k   == ParseKey(alg, key)
        ps  == k.params
        L   == Len(ps)
        qs  == LeafDigits(k.ctr, Heights(ps))
        sp  == SeedPath(alg, k.seed, qs)
        next == SuccKey(alg, key)
        sig == B(e.sig)
        hs  == ParseHssSig(alg, sig)
        fields ==
            IF ~hs.ok THEN <<Verdict("sig_unparsable", "parsable", "not")>>
            ELSE CmpVal("sig_len", HssSigLen(N(alg), ps), Len(sig))
                 \o CmpVal("sig_nspk", L - 1, hs.nspk)
                 \o (IF hs.nspk # L - 1 THEN <<>> ELSE
                     Cat([i \in 1..L |->
                         CmpVal("sig_q", qs[i], hs.sigs[i].q)
                         \o CmpVal("sig_otstype", ps[i].otsT, hs.sigs[i].otsT)
                         \o CmpVal("sig_lmstype", ps[i].lmsT, hs.sigs[i].lmsT)
                         \o (IF i < L THEN CmpVal("sig_child_I", sp[i + 1].I, hs.pubs[i].parsed.I)
                                          \o CmpVal("sig_C", Randomizer(alg, sp[i + 1].seed, sp[i + 1].I, qs[i]), hs.sigs[i].C)
                             ELSE CmpVal("sig_C", Randomizer(alg, sp[L].seed, sp[L].I, qs[L]), hs.sigs[L].C))]))
    IN  CmpVal("sign_result", "ok", e.res) \o NoPanic(e)
        \o CbVerdicts(e, TRUE, next)
        \o (IF e.res = "ok" THEN fields ELSE <<>>)

(* a note (not a deviation of this event): the event exercised a parameter set whose ls is taken *)
(* from the known finding instead of the Appendix-B formula; tools/check.py requires it to be   *)
(* listed in KNOWN_FINDINGS.json and prints the KNOWN-FINDING line                               *)
LsNotes(alg, params) ==
    LET n == N(alg)
        ws == {W(params[i].otsT) : i \in 1..Len(params)}
        devs == {w \in ws : LsEff(n, w) # Ls(n, w)}
        wseq == <<1, 2, 4, 8>>
    IN  Cat([i \in 1..4 |-> IF wseq[i] \in devs
                THEN <<[kind |-> "ls_deviation_in_use", exp |-> Ls(n, wseq[i]), got |-> LsEff(n, wseq[i]), n |-> n, w |-> wseq[i]]>>
                ELSE <<>>])

JudgeSign(e, c) ==
    LET alg == e.alg
        key == B(e.key)
        msg == B(e.msg)
        usable == SignOk(alg, key) /\ WithinLimits(ParseKey(alg, key).params)
                  /\ Representable(N(alg), ParseKey(alg, key).params)
    IN  IF usable /\ Light(e) /\ e.plan = "accept" THEN [v |-> JudgeSignLight(e), c |-> c]
        ELSE IF ~usable THEN
            (* malformed / wiped / exhausted / out-of-range key, or parameters beyond the build limits: *)
            (* error, no callback, no signature                                                         *)
            [v |-> (IF e.res = "err" THEN <<>> ELSE <<Verdict("sign_bad_key", "err", e.res)>> \o NoPanic(e))
                   \o CmpVal("cb_count", 0, e.cb_n)
                   \o CmpVal("sig_released", "", e.sig),
             c |-> c]
        ELSE
        LET k     == ParseKey(alg, key)
            pt    == PathTrees(c, alg, k)
            trees == [i \in 1..Len(pt) |-> pt[i].tree]
            exp   == SpecSignWith(alg, key, msg, trees)
            c2    == CachePut(c, pt)
            res   == e.res
            v ==
              CASE e.plan = "accept" ->
                        CmpVal("sign_result", "ok", res) \o NoPanic(e)
                        \o CbVerdicts(e, TRUE, exp.next)
                        \o (IF res = "ok" THEN CmpBytes("sig_bytes", exp.sig, e.sig) ELSE <<>>)
                        \o (IF e.api = "bytes" /\ e.stored THEN CmpBytes("stored_key", exp.next, e.stored_key) ELSE <<>>)
                        \o (IF e.has_mem /\ res = "ok" THEN CmpBytes("mem_after", exp.next, e.mem_after) ELSE <<>>)
                   [] e.plan = "reject" ->
                        CmpVal("sign_result", "err", res) \o NoPanic(e)
                        \o CbVerdicts(e, TRUE, exp.next)
                        \o CmpVal("sig_released", "", e.sig)
                   [] e.plan \in {"crash_before", "crash_after"} ->
                        (* the injected crash unwinds through the library: no signature can come back *)
                        CmpVal("sign_result", "panic", res)
                        \o CbVerdicts(e, TRUE, exp.next)
                        \o CmpVal("sig_released", "", e.sig)
                   [] OTHER -> <<Verdict("unknown_plan", "", e.plan)>>
        IN  [v |-> v \o LsNotes(alg, k.params), c |-> c2]

(* ======================================================================= *)
(* sign_mut (fast_verify feature, C15)                                     *)
(* ======================================================================= *)
(* digit sum of every LM-OTS signature inside an HSS signature = the number of hash iterations   *)
(* the signer spent on chains (reported as Signature::hash_iterations by the verbose feature)    *)
RECURSIVE SumDigitsR(_, _)
SumDigitsR(a, i) == IF i > Len(a) THEN 0 ELSE a[i] + SumDigitsR(a, i + 1)
HashIterations(alg, key, msg, sig) ==
    LET hs == ParseHssSig(alg, sig)
        k  == ParseKey(alg, key)
        L  == Len(hs.sigs)
        Iof(i) == IF i = 1 THEN TopSeed(alg, k.seed).I ELSE hs.pubs[i - 1].parsed.I
        per(i) == SumDigitsR(Digits(OtsDigest(alg, Iof(i), hs.sigs[i].q, hs.sigs[i].C,
                                              IF i = L THEN msg ELSE hs.pubs[i].bytes),
                                    N(alg), W(hs.sigs[i].otsT)), 1)
    IN  SumSeq([i \in 1..L |-> per(i)])

JudgeSignMut(e, c) ==
    LET alg == e.alg
        n   == N(alg)
        key == B(e.key)
        mi  == B(e.msg)
        mo  == B(e.msg_out)
        refused == Len(mi) <= n \/ ~IsAll(Drop(mi, Len(mi) - n), 0)
        usable == SignOk(alg, key) /\ WithinLimits(ParseKey(alg, key).params)
    IN  IF refused \/ ~usable THEN
            (* too short, trailer not zero, or unusable key: refused, nothing consumed, message untouched *)
            [v |-> (IF e.res = "err" THEN <<>> ELSE <<Verdict("sign_mut_refusal", "err", e.res)>> \o NoPanic(e))
                   \o CmpVal("cb_count", 0, e.cb_n) \o CmpVal("sig_released", "", e.sig)
                   \o CmpBytes("msg_untouched", mi, e.msg_out),
             c |-> c]
        ELSE
        LET k     == ParseKey(alg, key)
            pt    == PathTrees(c, alg, k)
            trees == [i \in 1..Len(pt) |-> pt[i].tree]
            exp   == SpecSignWith(alg, key, mo, trees)       \* an ORDINARY signature of the RETURNED message
            body  == Len(mi) - n
            v == CASE e.plan = "accept" ->
                        CmpVal("sign_result", "ok", e.res) \o NoPanic(e)
                        \o CmpVal("msg_len", Len(mi), Len(mo))
                        \o CmpBytes("msg_body_untouched", Take(mi, body), BytesToHex(Take(mo, body)))
                        \o CbVerdicts(e, TRUE, exp.next)
                        \o (IF e.res = "ok" THEN CmpBytes("sig_bytes", exp.sig, e.sig)
                                                 \o (IF SpecVerify(alg, mo, B(e.sig), SpecKeygenWith(alg, k.params, k.seed, trees[1]).pk)
                                                     THEN <<>> ELSE <<Verdict("sig_verifies", TRUE, FALSE)>>)
                                                 \o (IF e.hash_iterations > 0 /\ B(e.sig) = exp.sig
                                                     THEN CmpVal("hash_iterations", HashIterations(alg, key, mo, exp.sig), e.hash_iterations)
                                                     ELSE <<>>)
                            ELSE <<>>)
                        \o (IF e.stored THEN CmpBytes("stored_key", exp.next, e.stored_key) ELSE <<>>)
                   [] e.plan = "reject" ->
                        CmpVal("sign_result", "err", e.res) \o NoPanic(e)
                        \o CbVerdicts(e, TRUE, exp.next)
                        \o CmpVal("sig_released", "", e.sig)
                        \o CmpBytes("msg_body_untouched", Take(mi, body), BytesToHex(Take(mo, body)))
                   [] OTHER ->
                        CmpVal("sign_result", "panic", e.res) \o CbVerdicts(e, TRUE, exp.next) \o CmpVal("sig_released", "", e.sig)
        IN  [v |-> v \o LsNotes(alg, k.params), c |-> CachePut(c, pt)]

(* ======================================================================= *)
(* verify (all entry points)                                               *)
(* ======================================================================= *)
(* events written by the call-tracing hook (src/verif_trace.rs) or the command line recorder: one entry point observed *)
Recorded(e) == "meta" \in DOMAIN e /\ "recorder" \in DOMAIN e.meta
JudgeVerify(e) ==
    LET exp == SpecVerify(e.alg, B(e.msg), B(e.sig), B(e.pk))
        want == IF exp THEN "ok" ELSE "err"
        (* a VerifyingKey object that lives across calls (harness): absent in events of other recorders *)
        reSig == IF "vk_reused_sig" \in DOMAIN e THEN e.vk_reused_sig ELSE "na"
        reRef == IF "vk_reused_ref" \in DOMAIN e THEN e.vk_reused_ref ELSE "na"
        poked == IF "vk_poked" \in DOMAIN e THEN e.vk_poked ELSE "na"      \* a VerifyingKey whose bytes field was overwritten
        outcomes == <<e.res, e.vk_from, e.sig_from, e.vk_sig, e.vk_ref, reSig, reRef, poked>>
        anyPanic == \E i \in 1..8 : outcomes[i] = "panic"
        (* "na": the recorder did not exercise this entry point (call tracing sees the free function only) *)
        entry(kind, got) == IF got = "panic" \/ (got = "na" /\ Recorded(e)) THEN <<>>
                            ELSE IF exp THEN CmpVal(kind, "ok", got)
                            ELSE IF got \in {"err", "na"} THEN <<>> ELSE <<Verdict(kind, "err", got)>>
        (* recombinations enumerated from the symbolic model (GenSym.tla) carry its verdict: the   *)
        (* symbolic rendering of section 6.3 and the byte-level reference must agree on them        *)
        sym == IF "meta" \in DOMAIN e /\ "sym_accept" \in DOMAIN e.meta
               THEN CmpVal("symbolic_model_vs_reference", e.meta.sym_accept, exp) ELSE <<>>
        (* a triple made by another build with parameters beyond THIS build's height / Winternitz limits: the build may *)
        (* verify it or refuse it - it may not crash, and it may not accept what the reference rejects (C14)          *)
        relaxed == "meta" \in DOMAIN e /\ "relaxed_beyond_limits" \in DOMAIN e.meta
    IN  IF relaxed THEN
            (IF anyPanic THEN <<Verdict("panic", want, e.panic)>> ELSE <<>>)
            \o (IF ~exp /\ \E i \in {1, 4, 5, 6, 7, 8} : outcomes[i] = "ok" THEN <<Verdict("verify_outcome", "err", "ok")>> ELSE <<>>)
        ELSE
        (IF anyPanic THEN <<Verdict("panic", want, e.panic)>> ELSE <<>>)
        \o sym
        \o (IF e.res = "panic" THEN <<>> ELSE CmpVal("verify_outcome", want, e.res))
        \o entry("verify_vk_sig", e.vk_sig)
        \o entry("verify_vk_ref", e.vk_ref)
        \o (IF reSig = "na" THEN <<>> ELSE entry("verify_vk_reused_sig", reSig))
        \o (IF reRef = "na" THEN <<>> ELSE entry("verify_vk_reused_ref", reRef))
        \o (IF poked = "na" THEN <<>> ELSE entry("verify_vk_poked", poked))
        \o (IF exp /\ e.vk_from \notin {"ok", "panic"} /\ ~Recorded(e) THEN <<Verdict("vk_from_bytes", "ok", e.vk_from)>> ELSE <<>>)
        \o (IF exp /\ e.sig_from \notin {"ok", "panic"} /\ ~Recorded(e) THEN <<Verdict("sig_from_bytes", "ok", e.sig_from)>> ELSE <<>>)

(* ======================================================================= *)
(* lifetime                                                                *)
(* ======================================================================= *)
JudgeLifetime(e) ==
    LET alg == e.alg
        key == B(e.key)
        k   == ParseKey(alg, key)
        isErr == e.res \in {"err", "err_from_bytes"}
    IN  IF e.res = "panic" THEN NoPanic(e)
        ELSE IF ~k.ok THEN (IF isErr THEN <<>> ELSE <<Verdict("lifetime_bad_key", "err", e.res)>>)
        ELSE LET hs == Heights(k.params) T == SumSeq(hs) IN
             IF T >= 64 THEN <<>>                                \* value left open for tall lists (C13)
             ELSE IF ~CtrInRange(k.ctr, hs) THEN
                  (IF isErr THEN <<>> ELSE <<Verdict("lifetime_bad_counter", "err", e.res)>>)
             ELSE IF ~WithinLimits(k.params) \/ ~Representable(N(alg), k.params) THEN
                  (IF isErr THEN <<>> ELSE <<Verdict("lifetime_beyond_limits", "err", e.res)>>)
             ELSE CmpVal("lifetime_result", "ok", e.res)
                  \o (IF e.res = "ok" THEN CmpBytes("lifetime_value", BvToBytes(Lifetime(k.ctr, hs)), e.val) ELSE <<>>)

(* ======================================================================= *)
(* SigningKey::from_bytes ("reload from storage")                          *)
(* ======================================================================= *)
(* a well-formed key of a parameter list within the build limits loads, unchanged (C14: such keys  *)
(* remain fully usable; C09: a reloaded key continues like the one in memory); for anything else   *)
(* an error or an object holding the same bytes are both fine (C11), a panic is not                *)
JudgeLoad(e) ==
    LET key == B(e.key)
        k   == ParseKey(e.alg, key)
        good == k.ok /\ WithinLimits(k.params) /\ Representable(N(e.alg), k.params)
    IN  NoPanic(e)
        \o (IF good THEN CmpVal("load_result", "ok", e.res) ELSE <<>>)
        \o (IF e.res = "ok" THEN CmpBytes("load_value", key, e.mem_after) ELSE <<>>)

(* ======================================================================= *)
(* hooks                                                                   *)
(* ======================================================================= *)
JudgeHook(e) ==
    CASE e.hook = "ots_params" ->
            (* the parameter table against the Appendix-B FORMULAS (never LsEff) *)
            (* RFC 8554 type codes must be known; for any OTHER code the table answers for, its entry must still be an *)
            (* Appendix-B parameter set of this hash (n of the hash, w in {1,2,4,8}, p and ls by the formulas)            *)
            IF e.type \notin OtsTypes THEN
                (IF e.res # "ok" THEN <<>>
                 ELSE IF e.w \notin {1, 2, 4, 8} \/ e.n # N(e.alg) THEN <<[kind |-> "ots_extra_type_bad_nw", exp |-> N(e.alg), got |-> e.n, type |-> e.type]>>
                 ELSE CmpVal("ots_p", P(e.n, e.w), e.p)
                      \o (IF e.ls = Ls(e.n, e.w) \/ e.ls = LsEff(e.n, e.w) THEN <<>>
                          ELSE <<[kind |-> "ots_ls", exp |-> Ls(e.n, e.w), got |-> e.ls, n |-> e.n, w |-> e.w, type |-> e.type]>>))
            ELSE IF e.res # "ok" THEN <<Verdict("ots_params_missing", "ok", e.res)>>
            ELSE LET n == N(e.alg) w == W(e.type) IN
                 CmpVal("ots_n", n, e.n) \o CmpVal("ots_w", w, e.w)
                 \o CmpVal("ots_p", P(n, w), e.p)
                 \o (IF e.ls = Ls(n, w) THEN <<>>
                     ELSE <<[kind |-> "ots_ls", exp |-> Ls(n, w), got |-> e.ls, n |-> n, w |-> w]>>)
      [] e.hook = "digits" ->
            IF e.res # "ok" THEN <<Verdict("digits_missing", "ok", e.res)>>
            ELSE LET n == N(e.alg) w == W(e.type)
                     exp == Digits(B(e.digest), n, w)
                 IN  CmpBytes("digits", [i \in 1..Len(exp) |-> exp[i]], e.digits)
      [] e.hook = "ctr" ->
            LET hs  == e.heights
                ctr == BvFromBytes(B(e.ctr))
                T   == SumSeq(hs)
                inRange == CtrInRange(ctr, hs)
                noPanic == IF "panic" \in {e.digits_res, e.succ_res, e.life_res}
                           THEN <<Verdict("arith_panic", "no arithmetic failure", e.panic)>> ELSE <<>>
                digitsV == IF e.digits_res # "ok" \/ ~inRange THEN <<>>
                           ELSE LET exp == LeafDigits(ctr, hs) IN
                                CmpVal("ctr_digit_count", Len(hs), Len(e.digits))
                                \o (IF Len(e.digits) = Len(hs)
                                    THEN Cat([i \in 1..Len(hs) |->
                                             CmpVal("ctr_digit", exp[i], DecU32(B(e.digits[i])))])
                                    ELSE <<>>)
                succV == IF e.succ_res = "panic" THEN <<>>
                         ELSE IF IsLastLeaf(ctr, hs) \/ ~inRange THEN CmpVal("ctr_succ", "wipe", e.succ_res)
                         ELSE CmpVal("ctr_succ", "ok", e.succ_res)
                              \o (IF e.succ_res = "ok" THEN CmpBytes("ctr_succ_value", BvToBytes(BvInc(ctr)), e.succ) ELSE <<>>)
                lifeV == IF e.life_res # "ok" \/ ~inRange \/ T >= 64 THEN <<>>
                         ELSE CmpBytes("ctr_lifetime", BvToBytes(Lifetime(ctr, hs)), e.life)
            IN  noPanic \o digitsV \o succV \o lifeV
      [] e.hook = "root" ->
            LET k == ParseKey(e.alg, B(e.key)) IN
            IF ~k.ok THEN <<>>
            ELSE LET top == TopSeed(e.alg, k.seed) IN
                 CmpVal("root_res", "ok", e.res)
                 \o (IF e.res = "ok" THEN CmpBytes("root_seed", top.seed, e.seed) \o CmpBytes("root_I", top.I, e.I) ELSE <<>>)
      [] e.hook = "derive" ->
            (* seed derivation below a tree (C08), for leaf numbers no affordable tree reaches: child seed *)
            (* and identifier, randomizer, first and last chain start value of the leaf's one-time key    *)
            LET alg == e.alg
                sd  == B(e.seed)
                I   == B(e.I)
                q   == DecU32(B(e.q))
            IN  IF q = Huge THEN <<>>
                ELSE CmpVal("derive_res", "ok", e.res)
                     \o (IF e.res # "ok" THEN <<>>
                         ELSE LET ch == ChildSeedAndI(alg, sd, I, q)
                                  p  == P(N(alg), W(e.type))
                              IN  CmpBytes("derive_child_seed", ch.seed, e.child_seed)
                                  \o CmpBytes("derive_child_I", ch.I, e.child_I)
                                  \o CmpBytes("derive_randomizer", Randomizer(alg, sd, I, q), e.randomizer)
                                  \o CmpBytes("derive_x_first", X(alg, I, q, 0, sd), e.x_first)
                                  \o CmpBytes("derive_x_last", X(alg, I, q, p - 1, sd), e.x_last))
      [] e.hook \in {"zeroize", "drop"} ->
            (* SecretLifecycle: a populated value holds secret bytes; after zeroize / drop none survives *)
            CmpVal("secret_probe", "ok", e.res)
            \o (IF e.res = "ok" /\ e.type_name \in SecretTypes /\ e.secret_before < SecretBytes(e.type_name, N(e.alg))
                THEN <<Verdict("secret_probe_not_populated", SecretBytes(e.type_name, N(e.alg)), e.secret_before)>> ELSE <<>>)
            \o (IF e.res = "ok" /\ e.surviving # 0
                THEN <<[kind |-> "secret_survives", exp |-> 0, got |-> e.surviving, type_name |-> e.type_name, how |-> e.hook]>>
                ELSE <<>>)
      [] OTHER -> <<Verdict("unknown_hook", "", e.hook)>>

(* ======================================================================= *)
(* build information: the capacity of the build's Signature type must admit the longest signature *)
(* its limits allow (per-level maximum height, per-level minimum w, n = 32), up to the 65535 bytes *)
(* any signature container of the library can hold                                                *)
JudgeInfo(e) ==
    LET L == EnvMaxLevels
        big == [i \in 1..L |-> [otsT |-> TypeOfW(EnvMinWAt(i)), lmsT |-> TypeOfHeight(EnvMaxHeightAt(i))]]
        need == LET x == HssSigLen(32, big) IN IF x > 65535 THEN 65535 ELSE x
    IN  IF e.max_sig_len < need THEN <<[kind |-> "signature_capacity_too_small", exp |-> need, got |-> e.max_sig_len]>> ELSE <<>>

(* ======================================================================= *)
(* Deliberately wrong constants for the negative controls (TraceBytes_neg*.cfg): a correct *)
(* trace validated against a specification mutated this way MUST be rejected.              *)
Neg_D_LEAF == <<130, 131>>
Neg_D_MESG == <<129, 128>>
Neg_D_INTR == <<131, 130>>
Neg_TopSeedBlock(which, s, n) == Zeros(20) \o <<254, 253, which>> \o s \o Zeros(32 - n)
Neg_SuccKey(alg, b) == b

Judge(e, c) ==
    CASE e.ev = "keygen"   -> JudgeKeygen(e, c)
      [] e.ev = "sign"     -> JudgeSign(e, c)
      [] e.ev = "sign_mut" -> JudgeSignMut(e, c)
      [] e.ev = "verify"   -> [v |-> JudgeVerify(e), c |-> c]
      [] e.ev = "lifetime" -> [v |-> JudgeLifetime(e), c |-> c]
      [] e.ev = "hook"     -> [v |-> JudgeHook(e), c |-> c]
      [] e.ev = "info"     -> [v |-> JudgeInfo(e), c |-> c]
      [] e.ev = "load"     -> [v |-> JudgeLoad(e), c |-> c]
      (* SigningKey::as_mut_slice: same-length bytes written by the caller are what the object holds afterwards *)
      [] e.ev = "poke"     -> [v |-> NoPanic(e) \o (IF e.res = "ok" THEN CmpBytes("poke_value", B(e.key), e.mem_after) ELSE <<>>), c |-> c]
      [] e.ev \in {"reset", "persist", "skip"} -> [v |-> <<>>, c |-> c]
      [] e.ev = "hang"     -> [v |-> <<Verdict("hang", "termination", "hang")>>, c |-> c]
      [] OTHER             -> [v |-> <<Verdict("unknown_event", "", e.ev)>>, c |-> c]

Tag(vs, idx) == [i \in 1..Len(vs) |-> [l |-> idx] @@ vs[i]]

Init == l = 1 /\ bad = <<>> /\ cache = <<>>

Step == /\ l <= Len(Rec)
        /\ LET j == Judge(Rec[l], cache)
           IN  /\ bad' = bad \o Tag(j.v, l)
               /\ cache' = j.c
        /\ l' = l + 1

Finish == /\ l = Len(Rec) + 1
          /\ ndJsonSerialize(IOEnv.VERDICT, bad \o <<[l |-> 0, kind |-> "done", consumed |-> l - 1, total |-> Len(Rec)]>>)
          /\ l' = l + 1
          /\ UNCHANGED <<bad, cache>>

Next == Step \/ Finish
Spec == Init /\ [][Next]_vars
=============================================================================
