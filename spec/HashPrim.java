/*
 * TLC module override for HashPrim.tla.
 *
 * The ONLY semantics of the specification that is not written in TLA+:
 *   SHA256(bytes)            FIPS 180-4 SHA-256 (java.security.MessageDigest)
 *   SHAKE256(bytes, outlen)  FIPS 202 SHAKE256 (hand written Keccak-f[1600] sponge; JDK 17 has no SHAKE)
 *   HexToBytes / BytesToHex  lower-case hex <-> tuple of 0..255
 *   Ident(v)                 identity (used to force evaluation of LET-bound values, see Bytes.tla)
 * Byte strings are TLA+ tuples of integers 0..255.
 * Cross-checked against python hashlib by tools/selftest_prim.py on every check run.
 */
import tlc2.value.impl.IntValue;
import tlc2.value.impl.StringValue;
import tlc2.value.impl.TupleValue;
import tlc2.value.impl.Value;
import tlc2.value.impl.FcnRcdValue;
import java.security.MessageDigest;

public class HashPrim {
    private static final IntValue[] BYTE = new IntValue[256];
    static {
        for (int i = 0; i < 256; i++) BYTE[i] = IntValue.gen(i);
    }

    static byte[] toBytes(Value v) {
        TupleValue t = (TupleValue) v.toTuple();
        if (t == null) throw new RuntimeException("HashPrim: argument is not a tuple: " + v);
        Value[] e = t.elems;
        byte[] out = new byte[e.length];
        for (int i = 0; i < e.length; i++) {
            int x = ((IntValue) e[i]).val;
            if (x < 0 || x > 255) throw new RuntimeException("HashPrim: not a byte: " + x);
            out[i] = (byte) x;
        }
        return out;
    }

    static Value fromBytes(byte[] b, int n) {
        Value[] e = new Value[n];
        for (int i = 0; i < n; i++) e[i] = BYTE[b[i] & 0xff];
        return new TupleValue(e);
    }

    public static Value SHA256(Value b) throws Exception {
        MessageDigest md = MessageDigest.getInstance("SHA-256");
        byte[] d = md.digest(toBytes(b));
        return fromBytes(d, 32);
    }

    public static Value SHAKE256(Value b, Value n) {
        int outlen = ((IntValue) n).val;
        byte[] d = shake256(toBytes(b), outlen);
        return fromBytes(d, outlen);
    }

    public static Value HexToBytes(Value s) {
        String h = ((StringValue) s).val.toString();
        if ((h.length() & 1) != 0) throw new RuntimeException("HashPrim: odd hex length");
        int n = h.length() / 2;
        Value[] e = new Value[n];
        for (int i = 0; i < n; i++) {
            int hi = Character.digit(h.charAt(2 * i), 16), lo = Character.digit(h.charAt(2 * i + 1), 16);
            if (hi < 0 || lo < 0) throw new RuntimeException("HashPrim: bad hex digit");
            e[i] = BYTE[hi * 16 + lo];
        }
        return new TupleValue(e);
    }

    public static Value BytesToHex(Value b) {
        byte[] x = toBytes(b);
        StringBuilder sb = new StringBuilder(2 * x.length);
        for (byte y : x) {
            sb.append(Character.forDigit((y >> 4) & 15, 16));
            sb.append(Character.forDigit(y & 15, 16));
        }
        return new StringValue(sb.toString());
    }

    /* ------------------------------ Keccak ------------------------------ */
    private static final long[] RC = {
        0x0000000000000001L, 0x0000000000008082L, 0x800000000000808aL, 0x8000000080008000L,
        0x000000000000808bL, 0x0000000080000001L, 0x8000000080008081L, 0x8000000000008009L,
        0x000000000000008aL, 0x0000000000000088L, 0x0000000080008009L, 0x000000008000000aL,
        0x000000008000808bL, 0x800000000000008bL, 0x8000000000008089L, 0x8000000000008003L,
        0x8000000000008002L, 0x8000000000000080L, 0x000000000000800aL, 0x800000008000000aL,
        0x8000000080008081L, 0x8000000000008080L, 0x0000000080000001L, 0x8000000080008008L};
    private static final int[] ROT = {1, 3, 6, 10, 15, 21, 28, 36, 45, 55, 2, 14, 27, 41, 56, 8, 25, 43, 62, 18, 39, 61, 20, 44};
    private static final int[] PIL = {10, 7, 11, 17, 18, 3, 5, 16, 8, 21, 24, 4, 15, 23, 19, 13, 12, 2, 20, 14, 22, 9, 6, 1};

    static void keccakF(long[] st) {
        long[] bc = new long[5];
        for (int round = 0; round < 24; round++) {
            for (int i = 0; i < 5; i++) bc[i] = st[i] ^ st[i + 5] ^ st[i + 10] ^ st[i + 15] ^ st[i + 20];
            for (int i = 0; i < 5; i++) {
                long t = bc[(i + 4) % 5] ^ Long.rotateLeft(bc[(i + 1) % 5], 1);
                for (int j = 0; j < 25; j += 5) st[j + i] ^= t;
            }
            long t = st[1];
            for (int i = 0; i < 24; i++) {
                int j = PIL[i];
                long b = st[j];
                st[j] = Long.rotateLeft(t, ROT[i]);
                t = b;
            }
            for (int j = 0; j < 25; j += 5) {
                for (int i = 0; i < 5; i++) bc[i] = st[j + i];
                for (int i = 0; i < 5; i++) st[j + i] ^= (~bc[(i + 1) % 5]) & bc[(i + 2) % 5];
            }
            st[0] ^= RC[round];
        }
    }

    static byte[] shake256(byte[] in, int outlen) {
        final int rate = 136;
        long[] st = new long[25];
        int padded = (in.length / rate + 1) * rate;
        byte[] m = new byte[padded];
        System.arraycopy(in, 0, m, 0, in.length);
        m[in.length] ^= 0x1f;
        m[padded - 1] ^= (byte) 0x80;
        for (int off = 0; off < padded; off += rate) {
            for (int i = 0; i < rate / 8; i++) {
                long w = 0;
                for (int k = 7; k >= 0; k--) w = (w << 8) | (m[off + 8 * i + k] & 0xffL);
                st[i] ^= w;
            }
            keccakF(st);
        }
        byte[] out = new byte[outlen];
        int pos = 0;
        while (pos < outlen) {
            for (int i = 0; i < rate && pos < outlen; i++) {
                out[pos++] = (byte) (st[i / 8] >>> (8 * (i % 8)));
            }
            if (pos < outlen) keccakF(st);
        }
        return out;
    }
}
