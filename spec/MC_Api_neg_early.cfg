SPECIFICATION Spec
CONSTANTS
  Keys = {k1}
  Msgs = {m1, m2}
  HeightsC <- H11
  WatchAll = FALSE
  NoAdvance = FALSE
  ContinueFromLatest = TRUE
  ReleaseEarly = TRUE
  NoKey <- AbsNoKey
  NoSig <- AbsNoSig
  Fresh <- AbsFresh
  Signable <- AbsSignable
  Succ <- AbsSucc
  After <- AbsAfter
  SigOf <- AbsSigOf
  EntriesOf <- AbsEntries
  BadStates <- AbsBad
  WatchSet <- AbsWatchSet
INVARIANTS TypeOK
PROPERTY SigReturnedOnlyViaOk
VIEW View
CHECK_DEADLOCK FALSE
