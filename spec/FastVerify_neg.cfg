SPECIFICATION Spec
CONSTANTS
  Workers = {w1, w2, w3}
  Cands = {1, 2, 3, 4}
  Zero = 0
  Cost <- CostFn
  TakeLast = TRUE
  PerWorker = 2
INVARIANTS ChoiceIsCandidate BodyUntouched ChoiceIsBest ZeroOnlyIfNothingBetter
CHECK_DEADLOCK FALSE
