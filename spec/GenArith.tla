------------------------------- MODULE GenArith -------------------------------
(* Scenario generation for C13/C05 (spec -> implementation): for every height  *)
(* tuple in IOEnv.GEN_IN the boundary counters the specification defines       *)
(* (MC_Arith!BoundaryCtrs), as 16-digit hex strings, written to IOEnv.GEN_OUT. *)
EXTENDS MC_Arith, Json, IOUtils, SequencesExt
In == ndJsonDeserialize(IOEnv.GEN_IN)
Out == [i \in 1..Len(In) |->
          [heights |-> In[i].heights,
           ctrs |-> LET cs == SetToSeq(BoundaryCtrs(In[i].heights))
                    IN  [j \in 1..Len(cs) |-> BytesToHex(BvToBytes(cs[j]))]]]
ASSUME ndJsonSerialize(IOEnv.GEN_OUT, Out)
=============================================================================
