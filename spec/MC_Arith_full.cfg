SPECIFICATION Spec
CONSTANTS
  HeightSet = {5, 10, 15, 20, 25}
  MaxLen = 8
INVARIANT Inv
CHECK_DEADLOCK FALSE
