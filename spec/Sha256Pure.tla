----------------------------- MODULE Sha256Pure -----------------------------
(***************************************************************************)
(* FIPS 180-4 SHA-256 written in TLA+ itself.  TLC's integers are 32-bit   *)
(* signed, so a 32-bit word is a pair <<hi, lo>> of 16-bit limbs; the      *)
(* bitwise operations on limbs come from the CommunityModules' Bitwise     *)
(* module.  Orders of magnitude slower than the Java override              *)
(* HashPrim.SHA256 and therefore never used for validation itself:         *)
(* MC_PrimPure checks  Sha256(b) = SHA256(b)  on inputs around every       *)
(* padding boundary, so that the override is an optimisation of something  *)
(* the specification states, not an axiom of it.                           *)
(***************************************************************************)
EXTENDS Naturals, Sequences, Bitwise

M16 == 65536
Add(a, b) == LET lo == a[2] + b[2] hi == a[1] + b[1] + (lo \div M16) IN <<hi % M16, lo % M16>>
XorW(a, b) == <<a[1] ^^ b[1], a[2] ^^ b[2]>>
AndW(a, b) == <<a[1] & b[1], a[2] & b[2]>>
NotW(a) == <<65535 - a[1], 65535 - a[2]>>
P2(i) == 2 ^ i
(* logical shift right by 0 < n < 32 *)
Shr(a, n) == IF n >= 16 THEN <<0, a[1] \div P2(n - 16)>>
             ELSE <<a[1] \div P2(n), (a[2] \div P2(n)) + (a[1] % P2(n)) * P2(16 - n)>>
(* rotate right by 0 < n < 32 *)
RotLimbs(b, m) == IF m = 0 THEN b
                  ELSE <<(b[1] \div P2(m)) + (b[2] % P2(m)) * P2(16 - m), (b[2] \div P2(m)) + (b[1] % P2(m)) * P2(16 - m)>>
Rotr(a, n) == IF n >= 16 THEN RotLimbs(<<a[2], a[1]>>, n - 16) ELSE RotLimbs(a, n)

Ch(x, y, z) == XorW(AndW(x, y), AndW(NotW(x), z))
Maj(x, y, z) == XorW(XorW(AndW(x, y), AndW(x, z)), AndW(y, z))
BSig0(x) == XorW(XorW(Rotr(x, 2), Rotr(x, 13)), Rotr(x, 22))
BSig1(x) == XorW(XorW(Rotr(x, 6), Rotr(x, 11)), Rotr(x, 25))
SSig0(x) == XorW(XorW(Rotr(x, 7), Rotr(x, 18)), Shr(x, 3))
SSig1(x) == XorW(XorW(Rotr(x, 17), Rotr(x, 19)), Shr(x, 10))

K == <<<<17034, 12184>>, <<28983, 17553>>, <<46528, 64463>>, <<59829, 56229>>,
       <<14678, 49755>>, <<23025, 4593>>, <<37439, 33444>>, <<43804, 24277>>,
       <<55303, 43672>>, <<4739, 23297>>, <<9265, 34238>>, <<21772, 32195>>,
       <<29374, 23924>>, <<32990, 45566>>, <<39900, 1703>>, <<49563, 61812>>,
       <<58523, 27073>>, <<61374, 18310>>, <<4033, 40390>>, <<9228, 41420>>,
       <<11753, 11375>>, <<19060, 33962>>, <<23728, 43484>>, <<30457, 35034>>,
       <<38974, 20818>>, <<43057, 50797>>, <<45059, 10184>>, <<48985, 32711>>,
       <<50912, 3059>>, <<54695, 37191>>, <<1738, 25425>>, <<5161, 10599>>,
       <<10167, 2693>>, <<11803, 8504>>, <<19756, 28156>>, <<21304, 3347>>,
       <<25866, 29524>>, <<30314, 2747>>, <<33218, 51502>>, <<37490, 11397>>,
       <<41663, 59553>>, <<43034, 26187>>, <<49739, 35696>>, <<51052, 20899>>,
       <<53650, 59417>>, <<54937, 1572>>, <<62478, 13701>>, <<4202, 41072>>,
       <<6564, 49430>>, <<7735, 27656>>, <<10056, 30540>>, <<13488, 48309>>,
       <<14620, 3251>>, <<20184, 43594>>, <<23452, 51791>>, <<26670, 28659>>,
       <<29839, 33518>>, <<30885, 25455>>, <<33992, 30740>>, <<36039, 520>>,
       <<37054, 65530>>, <<42064, 27883>>, <<48889, 41975>>, <<50801, 30962>>>>
H0 == <<<<27145, 58983>>, <<47975, 44677>>, <<15470, 62322>>, <<42319, 62778>>,
       <<20750, 21119>>, <<39685, 26764>>, <<8067, 55723>>, <<23520, 52505>>>>

(* padding: 0x80, zeros up to 56 mod 64, 64-bit big-endian bit length (lengths below 2^28 bytes) *)
Pad(bytes) ==
    LET len == Len(bytes)
        zeros == (119 - (len % 64)) % 64
        bits == len * 8
        lenBytes == <<0, 0, 0, 0, (bits \div 16777216) % 256, (bits \div 65536) % 256, (bits \div 256) % 256, bits % 256>>
    IN  bytes \o <<128>> \o [i \in 1..zeros |-> 0] \o lenBytes

(* message schedule, built front to back (a recursive function definition would be exponential in TLC) *)
RECURSIVE Sched(_, _)
Sched(w, t) ==
    IF t > 64 THEN w
    ELSE Sched(Append(w, Add(Add(SSig1(w[t - 2]), w[t - 7]), Add(SSig0(w[t - 15]), w[t - 16]))), t + 1)
BlockWords(p, off) == [t \in 1..16 |-> <<p[off + 4 * t - 3] * 256 + p[off + 4 * t - 2], p[off + 4 * t - 1] * 256 + p[off + 4 * t]>>]

(* 64 rounds; s = <<a, b, c, d, e, f, g, h>> *)
RECURSIVE Rounds(_, _, _)
Rounds(s, w, t) ==
    IF t > 64 THEN s
    ELSE LET t1 == Add(Add(Add(s[8], BSig1(s[5])), Add(Ch(s[5], s[6], s[7]), K[t])), w[t])
             t2 == Add(BSig0(s[1]), Maj(s[1], s[2], s[3]))
         IN  Rounds(<<Add(t1, t2), s[1], s[2], s[3], Add(s[4], t1), s[5], s[6], s[7]>>, w, t + 1)

RECURSIVE Blocks(_, _, _)
Blocks(h, p, off) ==
    IF off >= Len(p) THEN h
    ELSE LET w == Sched(BlockWords(p, off), 17)
             s == Rounds(h, w, 1)
         IN  Blocks([i \in 1..8 |-> Add(h[i], s[i])], p, off + 64)

Sha256(bytes) ==
    LET h == Blocks(H0, Pad(bytes), 0)
    IN  [i \in 1..32 |-> LET wd == h[(i + 3) \div 4] r == (i - 1) % 4 IN
                         IF r = 0 THEN wd[1] \div 256 ELSE IF r = 1 THEN wd[1] % 256
                         ELSE IF r = 2 THEN wd[2] \div 256 ELSE wd[2] % 256]
=============================================================================
