------------------------------ MODULE MC_Vectors ------------------------------
(***************************************************************************)
(* Anchors of the transcription: the two test vectors published in         *)
(* RFC 8554 Appendix F (copied once from /repo/tests/rfc_testcase*.rs into  *)
(* spec/vectors/rfc8554.ndjson - the only RFC-issued ground truth available *)
(* offline).  One state per (vector, mutation):                            *)
(*   the unmodified triple must be ACCEPTED by SpecVerify, its length must  *)
(*   equal the RFC formula (HssSigLen) and its layout the spec's grammar;   *)
(*   after a single-field mutation (one per field of SigLayout/PubLayout,   *)
(*   plus message, truncation and extension) it must be REJECTED.           *)
(***************************************************************************)
EXTENDS Hss, Json, IOUtils

Vec == ndJsonDeserialize(IOEnv.VECTORS)
VARIABLE inst

ParamsFromSig(alg, sig) ==
    LET hs == ParseHssSig(alg, sig) IN [i \in 1..Len(hs.sigs) |-> [otsT |-> hs.sigs[i].otsT, lmsT |-> hs.sigs[i].lmsT]]
FlipAt(b, off) == [b EXCEPT ![off + 1] = IF b[off + 1] >= 128 THEN b[off + 1] - 128 ELSE b[off + 1] + 128]

Muts(v) ==
    LET alg == Vec[v].alg sig == HexToBytes(Vec[v].sig)
        lay == SigLayout(N(alg), ParamsFromSig(alg, sig))
    IN  {[v |-> v, kind |-> "none", off |-> 0]}
        \cup {[v |-> v, kind |-> "sig_first", off |-> lay[i].off] : i \in 1..Len(lay)}
        \cup {[v |-> v, kind |-> "sig_last", off |-> lay[i].off + lay[i].len - 1] : i \in 1..Len(lay)}
        \cup {[v |-> v, kind |-> "pk", off |-> PubLayout(N(alg))[i].off] : i \in 1..Len(PubLayout(N(alg)))}
        \cup {[v |-> v, kind |-> k, off |-> 0] : k \in {"msg", "sig_trunc", "sig_extend", "pk_trunc", "pk_extend"}}

Init == inst \in UNION {Muts(v) : v \in 1..Len(Vec)}
Next == UNCHANGED inst
Spec == Init /\ [][Next]_inst

Holds ==
    LET alg == Vec[inst.v].alg
        msg == HexToBytes(Vec[inst.v].msg)
        sig == HexToBytes(Vec[inst.v].sig)
        pk  == HexToBytes(Vec[inst.v].pk)
    IN  CASE inst.kind = "none" ->
                /\ SpecVerify(alg, msg, sig, pk)
                /\ ParseHssSig(alg, sig).ok
                /\ Len(sig) = HssSigLen(N(alg), ParamsFromSig(alg, sig))
                /\ Len(pk) = HssPubLen(N(alg))
          [] inst.kind \in {"sig_first", "sig_last"} -> ~SpecVerify(alg, msg, FlipAt(sig, inst.off), pk)
          [] inst.kind = "pk"         -> ~SpecVerify(alg, msg, sig, FlipAt(pk, inst.off))
          [] inst.kind = "msg"        -> ~SpecVerify(alg, FlipAt(msg, 3), sig, pk)
          [] inst.kind = "sig_trunc"  -> ~SpecVerify(alg, msg, SubSeq(sig, 1, Len(sig) - 1), pk)
          [] inst.kind = "sig_extend" -> ~SpecVerify(alg, msg, sig \o <<0>>, pk)
          [] inst.kind = "pk_trunc"   -> ~SpecVerify(alg, msg, sig, SubSeq(pk, 1, Len(pk) - 1))
          [] inst.kind = "pk_extend"  -> ~SpecVerify(alg, msg, sig, pk \o <<0>>)
=============================================================================
