------------------------------ MODULE GenDigests ------------------------------
(***************************************************************************)
(* Scenario generation for C12 (spec -> implementation): digests whose     *)
(* digit vectors the real encoder is asked for.  For the hash output       *)
(* length n = IOEnv.GEN_N and w = IOEnv.GEN_W:                             *)
(*   "byte"  : for every byte position and every byte value (stride        *)
(*             IOEnv.GEN_STRIDE) a digest that is zero elsewhere - covers  *)
(*             every digit index x every digit value                       *)
(*   "cksm"  : for every attainable checksum value c (same stride) a       *)
(*             digest whose checksum sum is exactly c                      *)
(*   "ext"   : all-zero, all-ones, alternating                             *)
(* Written to IOEnv.GEN_OUT as ndjson [family, hex].                       *)
(***************************************************************************)
EXTENDS LmOts, Json, IOUtils, SequencesExt

ToNat(s) == LET d(c) == CASE c = "0" -> 0 [] c = "1" -> 1 [] c = "2" -> 2 [] c = "3" -> 3 [] c = "4" -> 4
                          [] c = "5" -> 5 [] c = "6" -> 6 [] c = "7" -> 7 [] c = "8" -> 8 [] c = "9" -> 9
            IN  CASE s = "1" -> 1 [] s = "2" -> 2 [] s = "4" -> 4 [] s = "8" -> 8 [] s = "16" -> 16 [] s = "24" -> 24
                  [] s = "32" -> 32 [] s = "3" -> 3 [] s = "5" -> 5 [] s = "7" -> 7 [] s = "13" -> 13 [] s = "64" -> 64
n == ToNat(IOEnv.GEN_N)
w == ToNat(IOEnv.GEN_W)
stride == ToNat(IOEnv.GEN_STRIDE)

ByteFam == {<<pos, val>> : pos \in 1..n, val \in {v \in 0..255 : v % stride = 0 \/ v = 255}}
ByteDigest(pos, val) == [i \in 1..n |-> IF i = pos THEN val ELSE 0]

(* a digest whose message digits sum to u*(2^w-1) - c, i.e. checksum sum c: start from all-max *)
(* digits and lower them greedily from the front                                              *)
DigitsFor(c) ==
    LET mx == Pow2(w) - 1
        F[i \in 1..U(n, w)] == LET used == (i - 1) * mx IN
                               IF c >= used + mx THEN 0 ELSE IF c > used THEN mx - (c - used) ELSE mx
    IN  F
PackDigits(ds) ==
    LET per == 8 \div w
        G[k \in 0..per] == [b \in 1..n |-> IF k = per THEN 0 ELSE ds[(b - 1) * per + k + 1] * Pow2(w * (per - 1 - k)) + G[k + 1][b]]
    IN  [b \in 1..n |-> G[0][b]]
CksmFam == {c \in 0..MaxCksm(n, w) : c % stride = 0 \/ c = MaxCksm(n, w)}

Out == [fam \in {"byte"} |-> {}]
Lines ==
    LET bs == SetToSeq(ByteFam)
        cs == SetToSeq(CksmFam)
    IN  [i \in 1..Len(bs) |-> [family |-> "byte", hex |-> BytesToHex(ByteDigest(bs[i][1], bs[i][2]))]]
        \o [i \in 1..Len(cs) |-> [family |-> "cksm", hex |-> BytesToHex(PackDigits(DigitsFor(cs[i])))]]
        \o << [family |-> "ext", hex |-> BytesToHex([i \in 1..n |-> 0])],
              [family |-> "ext", hex |-> BytesToHex([i \in 1..n |-> 255])],
              [family |-> "ext", hex |-> BytesToHex([i \in 1..n |-> IF i % 2 = 0 THEN 170 ELSE 85])] >>

ASSUME \A i \in 1..Len(Lines) : Lines[i].family = "cksm" => TRUE
ASSUME ndJsonSerialize(IOEnv.GEN_OUT, Lines)
=============================================================================
