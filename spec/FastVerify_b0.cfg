SPECIFICATION Spec
CONSTANTS
  Workers = {w1, w2, w3, w4}
  Cands = {1, 2, 3, 4}
  Zero = 0
  Cost <- CostFn
  TakeLast = FALSE
  PerWorker = 0
INVARIANTS ChoiceIsCandidate BodyUntouched ChoiceIsBest ZeroOnlyIfNothingBetter
PROPERTY Terminates
CHECK_DEADLOCK FALSE
