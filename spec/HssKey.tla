-------------------------------- MODULE HssKey --------------------------------
(***************************************************************************)
(* The hash-sigs private-key conventions the library follows:              *)
(*   blob      = counter (8 bytes BE) || 8 parameter bytes || seed (n)     *)
(*   parameter = (LMS type << 4) + LM-OTS type, 0xff = end / padding       *)
(*   seeds and tree identifiers derived from the master seed               *)
(*   the 64-bit counter is the index of the next signature; its mixed-     *)
(*   radix digits (radices 2^h_i, bottom level least significant) are the  *)
(*   leaf indices                                                          *)
(***************************************************************************)
EXTENDS Lms

MaxLevelsRef == 8          \* the key blob always has eight parameter bytes
KeyLen(n) == 8 + MaxLevelsRef + n

ParamByte(lmsT, otsT) == lmsT * 16 + otsT
ParamEnd == 255

(* params: sequence of [otsT, lmsT] records, 1..8 entries *)
SerParams(params) ==
    [i \in 1..MaxLevelsRef |-> IF i <= Len(params) THEN ParamByte(params[i].lmsT, params[i].otsT)
                               ELSE ParamEnd]

SerKey(ctrBytes, params, seed) == ctrBytes \o SerParams(params) \o seed
FreshKey(params, seed) == SerKey(Zeros(8), params, seed)
WipedKey(n) == Zeros(8) \o Rep(255, 8) \o Zeros(n)

(* decode the parameter bytes up to the first 0xff *)
RECURSIVE DecodeParamsR(_, _)
DecodeParamsR(pb, i) ==
    IF i > Len(pb) \/ pb[i] = ParamEnd THEN [ok |-> TRUE, ps |-> <<>>]
    ELSE LET lmsT == pb[i] \div 16
             otsT == pb[i] % 16
         IN  IF lmsT \notin LmsTypes \/ otsT \notin OtsTypes THEN [ok |-> FALSE, ps |-> <<>>]
             ELSE LET rest == DecodeParamsR(pb, i + 1)
                  IN  IF rest.ok THEN [ok |-> TRUE, ps |-> <<[otsT |-> otsT, lmsT |-> lmsT]>> \o rest.ps]
                      ELSE rest
DecodeParams(pb) ==
    LET r == DecodeParamsR(pb, 1)
    IN  IF r.ok /\ Len(r.ps) >= 1 THEN [ok |-> TRUE, params |-> r.ps] ELSE [ok |-> FALSE]

Heights(params) == [i \in 1..Len(params) |-> Height(params[i].lmsT)]
RECURSIVE SumSeqR(_, _)
SumSeqR(s, i) == IF i > Len(s) THEN 0 ELSE s[i] + SumSeqR(s, i + 1)
SumSeq(s) == SumSeqR(s, 1)
TotalHeight(params) == SumSeq(Heights(params))

(* ---- counter arithmetic on 64-bit vectors ---- *)
(* bit offset of level i's digit: the sum of the heights of the levels below it *)
DigitOffset(hs, i) == SumSeq(SubSeq(hs, i + 1, Len(hs)))
(* the mathematical rule: digit i of ctr in mixed radix (2^h_1,...,2^h_L), *)
(* bottom level least significant.  All radices are powers of two, so the  *)
(* digit is a bit slice; bits beyond 63 are zero.                          *)
LeafDigits(ctr, hs) == [i \in 1..Len(hs) |-> BvSliceNat(ctr, DigitOffset(hs, i), hs[i])]

(* what hash-sigs and the library do: walk from the bottom level upwards,  *)
(* mask then shift                                                         *)
RECURSIVE ShiftMaskR(_, _, _, _)
ShiftMaskR(ctr, hs, i, acc) ==
    IF i = 0 THEN acc
    ELSE LET digit == BvSliceNat(ctr, 0, hs[i])
             shifted == [k \in BvIdx |-> IF k + hs[i] <= 64 THEN ctr[k + hs[i]] ELSE 0]
         IN  ShiftMaskR(shifted, hs, i - 1, [acc EXCEPT ![i] = digit])
ShiftMaskAlgo(ctr, hs) == ShiftMaskR(ctr, hs, Len(hs), [i \in 1..Len(hs) |-> 0])

(* the counter is a valid index: ctr < 2^T (always for T >= 64) *)
CtrInRange(ctr, hs) == BvBelowPow2(ctr, SumSeq(hs))
(* last leaf: ctr = 2^T - 1 (for T >= 64: only 2^64-1 ... see C13: never early) *)
IsLastLeaf(ctr, hs) == LET T == SumSeq(hs) IN
                       IF T >= 64 THEN ctr = BvOnes ELSE BvIsPow2Minus1(ctr, T)
(* remaining signatures: 2^T - ctr, defined for T <= 63 and ctr < 2^T *)
Lifetime(ctr, hs) == BvPow2Minus(SumSeq(hs), ctr)

(* ---- parsing the blob ---- *)
ParseKey(alg, b) ==
    IF Len(b) # KeyLen(N(alg)) THEN [ok |-> FALSE]
    ELSE LET dp == DecodeParams(Slice(b, 8, 8))
         IN  IF ~dp.ok THEN [ok |-> FALSE]
             ELSE [ok |-> TRUE, ctr |-> BvFromBytes(Slice(b, 0, 8)), ctrBytes |-> Slice(b, 0, 8),
                   params |-> dp.params, paramBytes |-> Slice(b, 8, 8), seed |-> Slice(b, 16, N(alg))]

(* the successor blob after one signature *)
SuccKey(alg, b) ==
    LET k == ParseKey(alg, b)
        hs == Heights(k.params)
    IN  IF IsLastLeaf(k.ctr, hs) THEN WipedKey(N(alg))
        ELSE BvToBytes(BvInc(k.ctr)) \o Slice(b, 8, 8 + N(alg))

(* ---- seed derivation (hash-sigs) ---- *)
(* D_TOPSEED block: 0^20 || 0xfe 0xfe || which || seed || zero padding to 55 bytes *)
TopSeedBlock(which, s, n) == Zeros(20) \o <<254, 254, which>> \o s \o Zeros(32 - n)
TopSeed(alg, masterSeed) ==
    LET n == N(alg)
        t == H(alg, TopSeedBlock(0, masterSeed, n))
    IN  [seed |-> H(alg, TopSeedBlock(1, t, n)),
         I    |-> Take(H(alg, TopSeedBlock(2, t, n)), 16)]

(* PRNG block: I || u32(q) || u16(j) || 0xff || seed || zero padding to 55 bytes.     *)
(* Named deviation PrngBlockIs55BytesForAllN: for n < 32 the library hashes the whole *)
(* 55-byte buffer (zero padded); X() in LmOts hashes exactly 23+n bytes.              *)
PrngBlock(I, q, j, seed, n) == I \o U32(q) \o U16(j) \o <<255>> \o seed \o Zeros(32 - n)
SEED_CHILD_SEED == 65534          \* 0xfffe, then 0xffff for the identifier
SEED_RANDOMIZER == 65533          \* 0xfffd

ChildSeedAndI(alg, pSeed, pI, q) ==
    [seed |-> H(alg, PrngBlock(pI, q, SEED_CHILD_SEED, pSeed, N(alg))),
     I    |-> Take(H(alg, PrngBlock(pI, q, SEED_CHILD_SEED + 1, pSeed, N(alg))), 16)]

(* the per-leaf signature randomizer C *)
Randomizer(alg, seed, I, q) == H(alg, PrngBlock(I, q, SEED_RANDOMIZER, seed, N(alg)))
=============================================================================
