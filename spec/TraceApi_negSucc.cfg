SPECIFICATION SpecApi
CHECK_DEADLOCK FALSE
\* see TraceBytes.cfg
CONSTANT LsEff <- LsWithKnownFindings
CONSTANT SuccKey <- Neg_SuccKey
