SPECIFICATION Spec
CONSTANTS
  Keys <- KeysAB
  SeedOf <- SeedOfAB
  H = 3
  Cap = 13
  CheckMac = FALSE
  ClearFresh = TRUE
INVARIANTS TypeOK AuxTransparent OnlyAuthenticatedIsRead KeygenLeavesLayout TooSmallStaysFresh SignNeverWritesMac
CHECK_DEADLOCK FALSE
