SPECIFICATION Spec
CONSTANTS
  Workers = {w1, w2, w3}
  Cands = {1, 2, 3, 4}
  Zero = 0
  Cost <- CostFn
  TakeLast = FALSE
  PerWorker = 2
INVARIANTS ChoiceIsCandidate BodyUntouched ChoiceIsBest ZeroOnlyIfNothingBetter
PROPERTY Terminates
CHECK_DEADLOCK FALSE
