SPECIFICATION Spec
INVARIANT Holds
CHECK_DEADLOCK FALSE
