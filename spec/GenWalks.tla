------------------------------- MODULE GenWalks -------------------------------
(***************************************************************************)
(* Scenario generation, protocol layer (spec -> implementation): behaviours *)
(* of the HssApi model (abstract instantiation MC_Api) are produced by TLC  *)
(* in simulation mode; the sequence of EXTERNAL actions of each behaviour   *)
(* (what a caller does: keygen, sign with a callback plan, sign with a bad  *)
(* key, reload, persist, crash, lifetime query) is printed as JSON and      *)
(* replayed against the real library by the harness.  Internal steps of a   *)
(* call are taken by the model but not logged; a crash inside a call is     *)
(* injected in the callback (the crash_* plans), the only place where the   *)
(* real library gives control back to the caller.                           *)
(***************************************************************************)
EXTENDS MC_Api, Json

VARIABLE hist
CONSTANT WalkLen

gvars == <<vars, hist>>
Log(rec) == hist' = Append(hist, rec)

GInit == Init /\ hist = <<>>

GNext ==
    /\ Len(hist) < WalkLen
    /\ \/ \E k \in Keys : Keygen(k) /\ Log([a |-> "keygen", k |-> k, start |-> Fresh(k).ctr])
       \/ \E k \in Keys : Reload(k) /\ Log([a |-> "reload", k |-> k])
       \/ \E k \in Keys : Persist(k) /\ Log([a |-> "persist", k |-> k])
       \/ \E k \in Keys, api \in Apis : GetLifetime(k, api) /\ Log([a |-> "lifetime", k |-> k, api |-> api])
       \/ \E k \in Keys, api \in Apis, m \in Msgs, plan \in Plans :
             /\ api = "mem" => plan = "accept"     \* the harness cannot make SigningKey's own closure fail
             /\ CallSign(k, api, m, plan) /\ Log([a |-> "sign", k |-> k, api |-> api, m |-> m, plan |-> plan])
       \/ \E k \in Keys, plan \in {"accept", "reject"} : \E b \in BadStates(k) : \E m \in {AnyMsg} :
             /\ latest[k] # NoKey
             /\ CallSignBad(k, b, m, plan)
             /\ Log([a |-> "sign_bad", k |-> k, m |-> m, plan |-> plan, tag |-> b.tag, over |-> b.ctr - TotalSigs])
       \/ (call.pc = "idle" /\ Crash /\ Log([a |-> "crash"]))
       \/ ((StepParse \/ StepBuild \/ StepIncrement \/ StepCallback \/ StepReturnOk \/ StepReturnErr) /\ UNCHANGED hist)

GSpec == GInit /\ [][GNext]_gvars

(* printed once per behaviour, when the walk is full and no call is in flight *)
WalkComplete == (Len(hist) = WalkLen /\ call.pc = "idle") => PrintT(<<"WALK", ToJson(hist)>>)
=============================================================================
