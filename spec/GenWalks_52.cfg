SPECIFICATION GSpec
CONSTANTS
  Keys = {k1}
  Msgs = {m1, m2}
  HeightsC <- H52
  WatchAll = TRUE
  WalkLen = 36
  NoAdvance = FALSE
  ContinueFromLatest = TRUE
  ReleaseEarly = FALSE
  NoKey <- AbsNoKey
  NoSig <- AbsNoSig
  Fresh <- AbsFreshLate
  Signable <- AbsSignable
  Succ <- AbsSucc
  After <- AbsAfter
  SigOf <- AbsSigOf
  EntriesOf <- AbsEntries
  BadStates <- AbsBad
  WatchSet <- AbsWatchSet
INVARIANT WalkComplete
CHECK_DEADLOCK FALSE
