SPECIFICATION Spec
CONSTANTS
  Keys = {k1}
  Msgs = {m1, m2}
  HeightsC <- H22
  WatchAll = FALSE
  NoAdvance = FALSE
  ContinueFromLatest = TRUE
  ReleaseEarly = FALSE
  NoKey <- AbsNoKey
  NoSig <- AbsNoSig
  Fresh <- AbsFresh
  Signable <- AbsSignable
  Succ <- AbsSucc
  After <- AbsAfter
  SigOf <- AbsSigOf
  EntriesOf <- AbsEntries
  BadStates <- AbsBad
  WatchSet <- AbsWatchSet
INVARIANTS TypeOK NoReuse ReleaseSafe CbAtMostOnce SigOnlyAfterAcceptedCb NoCbOnFailure
           BadKeyNeverSigns LifetimeAccounting WipeAtLast DeadAfterWipe DigitRule
PROPERTY SigReturnedOnlyViaOk Monotone
VIEW View
CHECK_DEADLOCK FALSE
