----------------------------- MODULE CounterInd -----------------------------
(***************************************************************************)
(* The counter protocol of HssApi.tla for ONE key driven through the        *)
(* byte-level API, reduced to integers so that Apalache can discharge an    *)
(* INDUCTIVE invariant: no one-time key (= counter value) is ever released  *)
(* twice, for EVERY lifetime T >= 1 and every history of signing calls,     *)
(* rejecting callbacks, crashes before / after the callback stored the      *)
(* successor, and retries - not only for the lifetimes <= 32 that TLC       *)
(* enumerates on MC_Api.                                                    *)
(*                                                                          *)
(*   apalache-mc check --cinit=ConstInit --init=Init    --inv=IndInv --length=0 CounterIndApa.tla  *)
(*   apalache-mc check --cinit=ConstInit --init=IndInit --inv=IndInv --length=1 CounterIndApa.tla  *)
(*   apalache-mc check --cinit=ConstInit --init=IndInit --inv=Safety --length=0 CounterIndApa.tla  *)
(*                                                                          *)
(* The same module is model-checked by TLC for T = 6 (CounterInd.cfg), so   *)
(* that the two tools agree on what the actions mean.                       *)
(***************************************************************************)
EXTENDS Integers, FiniteSets

CONSTANTS
    \* @type: Int;
    T,           \* number of one-time keys of the key (2^(sum of heights))
    \* @type: Bool;
    Early        \* TRUE: NEGATIVE MODEL - the signature may leave the library before the callback

VARIABLES
    \* @type: Int;
    store,       \* counter in the caller's storage
    \* @type: Bool;
    wiped,       \* the storage holds the wiped key
    \* @type: Str;
    pc,          \* "idle" | "built" (signature computed, not released) | "accepted" (callback stored the successor)
    \* @type: Int;
    cur,         \* counter the call in flight signs with
    \* @type: Set(Int);
    released,    \* counters whose signature left the library
    \* @type: Bool;
    dup          \* ghost: some counter was released a second time

ConstInit == T \in Nat /\ T >= 1 /\ Early = FALSE
ConstInitEarly == T \in Nat /\ T >= 1 /\ Early = TRUE

Init ==
    /\ store = 0 /\ wiped = FALSE /\ pc = "idle" /\ cur = 0 /\ released = {} /\ dup = FALSE

(* hss_sign_core up to the callback: parse (refuse wiped / out-of-range keys), build, sign *)
CallSign ==
    /\ pc = "idle" /\ ~wiped /\ store < T
    /\ pc' = "built" /\ cur' = store
    /\ UNCHANGED <<store, wiped, released, dup>>

(* the callback stores the successor (the wiped key after the last leaf) and reports success *)
CallbackAccept ==
    /\ pc = "built"
    /\ IF cur + 1 >= T THEN wiped' = TRUE /\ store' = 0 ELSE wiped' = wiped /\ store' = cur + 1
    /\ pc' = "accepted"
    /\ UNCHANGED <<cur, released, dup>>

(* the callback reports failure: nothing is stored, nothing is released *)
CallbackReject ==
    /\ pc = "built" /\ pc' = "idle"
    /\ UNCHANGED <<store, wiped, cur, released, dup>>

(* the signature leaves the library *)
Return ==
    /\ (pc = "accepted" \/ (Early /\ pc = "built")) /\ pc' = "idle"
    /\ dup' = (dup \/ cur \in released)
    /\ released' = released \union {cur}
    /\ UNCHANGED <<store, wiped, cur>>

(* the process dies at any point (including right after the callback stored the successor) *)
Crash ==
    /\ pc' = "idle"
    /\ UNCHANGED <<store, wiped, cur, released, dup>>

Next == CallSign \/ CallbackAccept \/ CallbackReject \/ Return \/ Crash

vars == <<store, wiped, pc, cur, released, dup>>
Spec == Init /\ [][Next]_vars

(* ---- properties ---- *)
Safety == ~dup                                           \* C03: no one-time key is released twice
ReleasedBelowStore == \A r \in released : wiped \/ r < store          \* C04: crash safety
AtMostT == \A r \in released : 0 <= r /\ r < T                        \* C05: never more than T signatures

TypeOK ==
    /\ pc \in {"idle", "built", "accepted"}
    /\ store >= 0 /\ store < T
    /\ cur >= 0 /\ cur < T

IndInv ==
    /\ TypeOK
    /\ Safety
    /\ ReleasedBelowStore
    /\ AtMostT
    /\ (pc = "built" => (~wiped /\ cur = store))
    /\ (pc = "accepted" => (wiped \/ cur < store))
    /\ (pc = "accepted" => cur \notin released)
    /\ (wiped => store = 0)

=============================================================================
