---------------------------- MODULE CounterIndApa ----------------------------
(* Apalache-only part: an ARBITRARY state satisfying the inductive invariant.  `released` is an     *)
(* arbitrary set of at most 6 integers (Apalache's Gen); the invariant and the actions mention at   *)
(* most two elements of it (the counter in flight and one witness), so a violation of the induction *)
(* step, if any, already exists with a set of that size (small-scope argument, stated assumption).  *)
EXTENDS CounterInd, Apalache

IndInit ==
    /\ store = Gen(1) /\ wiped = Gen(1) /\ pc = Gen(1) /\ cur = Gen(1)
    /\ released = Gen(6)
    /\ dup = Gen(1)
    /\ IndInv
=============================================================================
