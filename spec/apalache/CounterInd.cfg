SPECIFICATION Spec
CONSTANT T = 6
CONSTANT Early = FALSE
INVARIANTS IndInv
CHECK_DEADLOCK FALSE
