------------------------------ MODULE DomLemma ------------------------------
(* The step from the checksum lemmas of MC_Ots to domination-freeness for FULL-SIZE digests,       *)
(* discharged symbolically by Apalache (DESIGN.md 15.14; property C12).                            *)
(*                                                                                                 *)
(* RFC 8554 section 4.4/4.5: the signed digit vector is  a_1..a_u  (the digits of Q, u = 8n/w)      *)
(* followed by the top v digits of the 16-bit value  Cksm(a) * 2^ls,  Cksm(a) = SUM (2^w - 1 - a_i).*)
(* Domination: a forger can advance chains, i.e. turn vector x into vector y when x_j <= y_j for    *)
(* every signed position j.  The scheme is domination-free when no two DIFFERENT digests have      *)
(* digit vectors related that way.  TLC checks this exhaustively for scaled digests (MC_Ots,       *)
(* NoDomination); here a and b are ARBITRARY sequences of u digits (every one of the 2^(8n)         *)
(* digests of the n = 32 parameter sets, and by the prefix argument below also n = 24, 16) and the  *)
(* solver shows that a <= b pointwise and a # b force some signed checksum digit of a to be larger. *)
(*                                                                                                 *)
(* One Init/Inv pair per Winternitz parameter with literal numbers (Apalache wants literal          *)
(* divisors).  `ls` is the RFC's Appendix-B value for n = 32; NegInv_w1 is the same statement with  *)
(* the repository's deviating ls = 7 for (n,w) = (24,1) and is expected to FAIL (known finding).    *)
EXTENDS Integers, Sequences, Apalache

VARIABLES
    \* @type: Seq(Int);
    a,
    \* @type: Seq(Int);
    b

\* @type: (Seq(Int), Int) => Int;
Cksm(s, maxd) == ApaFoldSeqLeft(LAMBDA acc, x: acc + (maxd - x), 0, s)

\* @type: (Seq(Int), Int, Int) => Bool;
IsDigits(s, u, maxd) == Len(s) = u /\ \A i \in DOMAIN s : s[i] >= 0 /\ s[i] <= maxd

\* @type: (Seq(Int), Seq(Int)) => Bool;
Below(x, y) == \A i \in DOMAIN x : x[i] <= y[i]

\* @type: (Seq(Int), Seq(Int)) => Bool;
Differ(x, y) == \E i \in DOMAIN x : x[i] # y[i]

\* digit of the shifted 16-bit checksum value c: (c \div d) % base
\* ---- w = 8 : u = 32, v = 2, ls = 0, digits at 2^8, 2^0
Init_w8 == a = Gen(32) /\ b = Gen(32) /\ IsDigits(a, 32, 255) /\ IsDigits(b, 32, 255)
Inv_w8 ==
    LET ca == Cksm(a, 255)  cb == Cksm(b, 255) IN
    (Below(a, b) /\ Differ(a, b)) =>
        /\ ca < 65536
        /\ \/ (ca \div 256) % 256 > (cb \div 256) % 256
           \/ ca % 256 > cb % 256

\* ---- w = 4 : u = 64, v = 3, ls = 4, digits at 2^12, 2^8, 2^4 of c*16
Init_w4 == a = Gen(64) /\ b = Gen(64) /\ IsDigits(a, 64, 15) /\ IsDigits(b, 64, 15)
Inv_w4 ==
    LET ca == Cksm(a, 15) * 16  cb == Cksm(b, 15) * 16 IN
    (Below(a, b) /\ Differ(a, b)) =>
        /\ ca < 65536
        /\ \/ (ca \div 4096) % 16 > (cb \div 4096) % 16
           \/ (ca \div 256) % 16 > (cb \div 256) % 16
           \/ (ca \div 16) % 16 > (cb \div 16) % 16

\* ---- w = 2 : u = 128, v = 5, ls = 6
Init_w2 == a = Gen(128) /\ b = Gen(128) /\ IsDigits(a, 128, 3) /\ IsDigits(b, 128, 3)
Inv_w2 ==
    LET ca == Cksm(a, 3) * 64  cb == Cksm(b, 3) * 64 IN
    (Below(a, b) /\ Differ(a, b)) =>
        /\ ca < 65536
        /\ \/ (ca \div 16384) % 4 > (cb \div 16384) % 4
           \/ (ca \div 4096) % 4 > (cb \div 4096) % 4
           \/ (ca \div 1024) % 4 > (cb \div 1024) % 4
           \/ (ca \div 256) % 4 > (cb \div 256) % 4
           \/ (ca \div 64) % 4 > (cb \div 64) % 4

\* ---- w = 1 : u = 256, v = 9, ls = 7
Init_w1 == a = Gen(256) /\ b = Gen(256) /\ IsDigits(a, 256, 1) /\ IsDigits(b, 256, 1)
Inv_w1 ==
    LET ca == Cksm(a, 1) * 128  cb == Cksm(b, 1) * 128 IN
    (Below(a, b) /\ Differ(a, b)) =>
        /\ ca < 65536
        /\ \/ (ca \div 32768) % 2 > (cb \div 32768) % 2
           \/ (ca \div 16384) % 2 > (cb \div 16384) % 2
           \/ (ca \div 8192) % 2 > (cb \div 8192) % 2
           \/ (ca \div 4096) % 2 > (cb \div 4096) % 2
           \/ (ca \div 2048) % 2 > (cb \div 2048) % 2
           \/ (ca \div 1024) % 2 > (cb \div 1024) % 2
           \/ (ca \div 512) % 2 > (cb \div 512) % 2
           \/ (ca \div 256) % 2 > (cb \div 256) % 2
           \/ (ca \div 128) % 2 > (cb \div 128) % 2

\* ---- (n,w) = (24,1) with the RFC's Appendix-B values: u = 192, v = 8, ls = 8
Init_n24w1_rfc == a = Gen(192) /\ b = Gen(192) /\ IsDigits(a, 192, 1) /\ IsDigits(b, 192, 1)
Inv_n24w1_rfc ==
    LET ca == Cksm(a, 1) * 256  cb == Cksm(b, 1) * 256 IN
    (Below(a, b) /\ Differ(a, b)) =>
        /\ ca < 65536
        /\ \/ (ca \div 32768) % 2 > (cb \div 32768) % 2
           \/ (ca \div 16384) % 2 > (cb \div 16384) % 2
           \/ (ca \div 8192) % 2 > (cb \div 8192) % 2
           \/ (ca \div 4096) % 2 > (cb \div 4096) % 2
           \/ (ca \div 2048) % 2 > (cb \div 2048) % 2
           \/ (ca \div 1024) % 2 > (cb \div 1024) % 2
           \/ (ca \div 512) % 2 > (cb \div 512) % 2
           \/ (ca \div 256) % 2 > (cb \div 256) % 2

\* ---- (n,w) = (24,1) with the repository's ls = 7 (v = 8): the 2^7 digit of c*128, i.e. the low checksum bit, is unsigned.  EXPECTED TO FAIL - known finding of C12
Init_n24w1_repo == a = Gen(192) /\ b = Gen(192) /\ IsDigits(a, 192, 1) /\ IsDigits(b, 192, 1)
Inv_n24w1_repo ==
    LET ca == Cksm(a, 1) * 128  cb == Cksm(b, 1) * 128 IN
    (Below(a, b) /\ Differ(a, b)) =>
        /\ ca < 65536
        /\ \/ (ca \div 32768) % 2 > (cb \div 32768) % 2
           \/ (ca \div 16384) % 2 > (cb \div 16384) % 2
           \/ (ca \div 8192) % 2 > (cb \div 8192) % 2
           \/ (ca \div 4096) % 2 > (cb \div 4096) % 2
           \/ (ca \div 2048) % 2 > (cb \div 2048) % 2
           \/ (ca \div 1024) % 2 > (cb \div 1024) % 2
           \/ (ca \div 512) % 2 > (cb \div 512) % 2
           \/ (ca \div 256) % 2 > (cb \div 256) % 2

\* ---- (n,w) = (16,2) RFC: u = 64, v = 4, ls = 8
Init_n16w2_rfc == a = Gen(64) /\ b = Gen(64) /\ IsDigits(a, 64, 3) /\ IsDigits(b, 64, 3)
Inv_n16w2_rfc ==
    LET ca == Cksm(a, 3) * 256  cb == Cksm(b, 3) * 256 IN
    (Below(a, b) /\ Differ(a, b)) =>
        /\ ca < 65536
        /\ \/ (ca \div 16384) % 4 > (cb \div 16384) % 4
           \/ (ca \div 4096) % 4 > (cb \div 4096) % 4
           \/ (ca \div 1024) % 4 > (cb \div 1024) % 4
           \/ (ca \div 256) % 4 > (cb \div 256) % 4

\* ---- (n,w) = (16,2) with the repository's ls = 6.  EXPECTED TO FAIL - known finding of C12
Init_n16w2_repo == a = Gen(64) /\ b = Gen(64) /\ IsDigits(a, 64, 3) /\ IsDigits(b, 64, 3)
Inv_n16w2_repo ==
    LET ca == Cksm(a, 3) * 64  cb == Cksm(b, 3) * 64 IN
    (Below(a, b) /\ Differ(a, b)) =>
        /\ ca < 65536
        /\ \/ (ca \div 16384) % 4 > (cb \div 16384) % 4
           \/ (ca \div 4096) % 4 > (cb \div 4096) % 4
           \/ (ca \div 1024) % 4 > (cb \div 1024) % 4
           \/ (ca \div 256) % 4 > (cb \div 256) % 4

\* ---- vacuity control: only the TOP checksum digit of w = 8 is compared - must FAIL
NegInv_w8_top ==
    LET ca == Cksm(a, 255)  cb == Cksm(b, 255) IN
    (Below(a, b) /\ Differ(a, b)) => (ca \div 256) % 256 > (cb \div 256) % 256

Next == UNCHANGED <<a, b>>
=============================================================================
