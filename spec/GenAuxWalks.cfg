SPECIFICATION GSpec
CONSTANTS
  Keys <- KeysAB
  SeedOf <- SeedOfAB
  H = 5
  Cap = 45
  CheckMac = TRUE
  ClearFresh = TRUE
  WalkLen = 16
INVARIANTS WalkComplete AuxTransparent
CHECK_DEADLOCK FALSE
