SPECIFICATION Spec
CONSTANTS
  Shapes <- ShapesQuick
  CtrStride = 3
INVARIANT Complete
CHECK_DEADLOCK FALSE
