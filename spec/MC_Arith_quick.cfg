SPECIFICATION Spec
CONSTANTS
  HeightSet = {2, 5, 10, 15, 20, 25}
  MaxLen = 4
INVARIANT Inv
CHECK_DEADLOCK FALSE
