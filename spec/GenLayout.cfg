
