------------------------------- MODULE MC_Arith -------------------------------
(***************************************************************************)
(* C13 / C05 on the specification: the counter arithmetic of HssKey.tla.   *)
(* One initial state per height tuple (all tuples of length 1..MaxLen over *)
(* HeightSet); the invariant checks, for every boundary counter of the     *)
(* tuple (0, 1, every radix boundary -1/0/+1, last-1, last, last+1):       *)
(*   - the mathematical digit rule (bit slices) = the shift-and-mask       *)
(*     algorithm hash-sigs and the library use                             *)
(*   - the digits recompose to the counter (mixed radix, bottom level      *)
(*     least significant) and each is below its radix                      *)
(*   - successor / last leaf / lifetime, and for T <= 30 agreement of the  *)
(*     64-bit vector library with TLC's integer arithmetic                 *)
(*   - tall lists (T >= 64): digits stay bit slices with zeros above bit   *)
(*     63, the key is "last" only at 2^64-1, nothing is undefined          *)
(***************************************************************************)
EXTENDS HssKey, FiniteSets

CONSTANTS HeightSet, MaxLen
VARIABLE hs

(* the tuples are explored as a tree (append one level per step) so that TLC's workers share them *)
Init == hs = <<>>
Next == Len(hs) < MaxLen /\ \E h \in HeightSet : hs' = Append(hs, h)
Spec == Init /\ [][Next]_hs

(* ---- boundary counters as bit vectors ---- *)
BvOnesBelow(p) == [i \in BvIdx |-> IF i <= p THEN 1 ELSE 0]              \* 2^p - 1 (p <= 64)
BvPow2Plus1(p) == [i \in BvIdx |-> IF i = p + 1 \/ i = 1 THEN 1 ELSE 0]  \* 2^p + 1 (1 <= p <= 63)
BvDec(v) == [i \in BvIdx |-> IF \A j \in 1..(i - 1) : v[j] = 0 THEN 1 - v[i] ELSE v[i]]   \* v - 1 mod 2^64
Boundaries(s) == {DigitOffset(s, i) : i \in 1..Len(s)} \cup {SumSeq(s)}
BoundaryCtrs(s) ==
    LET T == SumSeq(s)
        ps == {p \in Boundaries(s) : p >= 1 /\ p <= 63}
    IN  {BvZero, BvFromNat(1)}
        \cup {BvOnesBelow(p) : p \in ps} \cup {BvPow2(p) : p \in ps} \cup {BvPow2Plus1(p) : p \in ps}
        \cup (IF T <= 63 THEN {BvDec(BvOnesBelow(T)), BvOnesBelow(T), BvPow2(T)} ELSE {BvDec(BvOnes), BvOnes})

(* digits -> counter, by bits *)
Recompose(ds, s) == [i \in BvIdx |->
    LET bitno == i - 1
        lv == {k \in 1..Len(s) : DigitOffset(s, k) <= bitno /\ bitno < DigitOffset(s, k) + s[k]}
    IN  IF lv = {} THEN 0
        ELSE LET k == CHOOSE k \in lv : TRUE IN (ds[k] \div Pow2(bitno - DigitOffset(s, k))) % 2]

BvToNat30(v) == BvSliceNat(v, 0, 30)

Check(s, c) ==
    LET T == SumSeq(s)
        ds == LeafDigits(c, s)
        inRange == CtrInRange(c, s)
    IN  /\ ds = ShiftMaskAlgo(c, s)
        /\ \A i \in 1..Len(s) : ds[i] >= 0 /\ ds[i] < Pow2(s[i])
        /\ inRange => Recompose(ds, s) = c
        /\ (T <= 63) => (inRange <=> BvLess(c, BvPow2(T)))
        /\ (T >= 64) => inRange
        /\ IsLastLeaf(c, s) => (inRange /\ (T >= 64 => c = BvOnes))
        /\ (inRange /\ ~IsLastLeaf(c, s)) =>
              /\ CtrInRange(BvInc(c), s)
              /\ BvLess(c, BvInc(c))
        /\ (inRange /\ T <= 63) =>
              /\ LET lf == Lifetime(c, s) IN
                 /\ (IsLastLeaf(c, s) <=> lf = BvFromNat(1))
                 /\ (c = BvZero <=> lf = BvPow2(T))
                 /\ ~IsLastLeaf(c, s) => Lifetime(BvInc(c), s) = BvDec(lf)
        /\ (inRange /\ T <= 29) =>
              LET x == BvToNat30(c) IN
              /\ \A i \in 1..Len(s) : ds[i] = (x \div Pow2(DigitOffset(s, i))) % Pow2(s[i])
              /\ BvToNat30(Lifetime(c, s)) = Pow2(T) - x
              /\ ~IsLastLeaf(c, s) => BvToNat30(BvInc(c)) = x + 1

Inv == Len(hs) >= 1 => \A c \in BoundaryCtrs(hs) : Check(hs, c)
=============================================================================
