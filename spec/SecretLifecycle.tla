---------------------------- MODULE SecretLifecycle ----------------------------
(***************************************************************************)
(* C16: the life cycle of the secret-bearing values of the library.        *)
(* A value is created populated (every secret byte = a sentinel), then it  *)
(* is either explicitly zeroized or goes out of scope (dropped).  After    *)
(* either, no secret byte may survive in the storage it occupied.          *)
(* The specification contributes the table of types and how many secret    *)
(* bytes each must hold for the probe to be meaningful, the state machine, *)
(* and the invariant; the probe events recorded from the real code         *)
(* (hooks zeroize / drop) are judged against it by TraceBytes!JudgeHook.   *)
(***************************************************************************)
EXTENDS SecretTable

VARIABLES phase, surviving
Init == phase \in [SecretTypes -> {"live"}] /\ surviving \in [SecretTypes -> {1}]
Zeroize(ty) == phase[ty] = "live" /\ phase' = [phase EXCEPT ![ty] = "zeroized"] /\ surviving' = [surviving EXCEPT ![ty] = 0]
DropValue(ty) == phase[ty] \in {"live", "zeroized"} /\ phase' = [phase EXCEPT ![ty] = "dropped"] /\ surviving' = [surviving EXCEPT ![ty] = 0]
Next == \E ty \in SecretTypes : Zeroize(ty) \/ DropValue(ty)
Spec == Init /\ [][Next]_<<phase, surviving>>
NoSecretSurvives == \A ty \in SecretTypes : phase[ty] # "live" => surviving[ty] = 0
=============================================================================
