-------------------------------- MODULE LmOts --------------------------------
(***************************************************************************)
(* LM-OTS one-time signatures: RFC 8554 section 4 and Appendix B, plus the *)
(* hash-sigs derivation of the chain start values from a tree seed.        *)
(*                                                                         *)
(* The library uses the RFC type codes 1..4 (w = 1,2,4,8) for EVERY hash   *)
(* variant; n comes from the selected hash.                                *)
(***************************************************************************)
EXTENDS Hash

OtsTypes == 1..4
W(t) == CASE t = 1 -> 1 [] t = 2 -> 2 [] t = 3 -> 4 [] t = 4 -> 8
TypeOfW(w) == CASE w = 1 -> 1 [] w = 2 -> 2 [] w = 4 -> 3 [] w = 8 -> 4

(* ---- Appendix B: the parameters are DEFINED by formulas, not by a table ---- *)
U(n, w) == (8 * n) \div w
Log2Floor(x) == CHOOSE k \in 0..30 : Pow2(k) <= x /\ x < Pow2(k + 1)
CeilDiv(a, b) == (a + b - 1) \div b
MaxCksm(n, w) == U(n, w) * (Pow2(w) - 1)
V(n, w) == CeilDiv(Log2Floor(MaxCksm(n, w)) + 1, w)
Ls(n, w) == 16 - V(n, w) * w
P(n, w) == U(n, w) + V(n, w)

(* Known finding (KNOWN_FINDINGS.json, property C12): the library's table  *)
(* has ls = 7, 7, 6 where the formula gives 8, 8, 8.  Configurations that  *)
(* validate OTHER behaviour of those three parameter sets substitute       *)
(* LsEff <- LsWithKnownFindings; the strict configurations keep LsEff = Ls.*)
LsWithKnownFindings(n, w) ==
    CASE n = 24 /\ w = 1 -> 7
      [] n = 16 /\ w = 1 -> 7
      [] n = 16 /\ w = 2 -> 6
      [] OTHER -> Ls(n, w)
LsEff(n, w) == Ls(n, w)

(* ---- RFC 8554 section 3.1.3 / 4.4 ---- *)
(* i-th w-bit digit of S (i is 0-based) *)
Coef(S, i, w) == (S[((i * w) \div 8) + 1] \div Pow2(8 - (w * (i % (8 \div w)) + w))) % Pow2(w)

RECURSIVE CksmSumR(_, _, _, _)
CksmSumR(Q, w, i, u) == IF i = u THEN 0
                        ELSE (Pow2(w) - 1 - Coef(Q, i, w)) + CksmSumR(Q, w, i + 1, u)
CksmSum(Q, n, w) == CksmSumR(Q, w, 0, U(n, w))
(* Algorithm 2; the result is a 16-bit unsigned value *)
CksmWith(Q, n, w, ls) == (CksmSum(Q, n, w) * Pow2(ls)) % 65536
Cksm(Q, n, w) == CksmWith(Q, n, w, LsEff(n, w))

(* the chain positions a[0..p-1] used to sign digest Q (1-based sequence) *)
DigitsWith(Q, n, w, ls) ==
    LET S == Q \o U16(CksmWith(Q, n, w, ls))
    IN  TLCEval([i \in 1..P(n, w) |-> Coef(S, i - 1, w)])
Digits(Q, n, w) == DigitsWith(Q, n, w, LsEff(n, w))

(* ---- domain separators ---- *)
D_PBLC == <<128, 128>>
D_MESG == <<129, 129>>

(* ---- hash-sigs: chain start value i of leaf q of tree (I, seed) ---- *)
X(alg, I, q, i, seed) == H(alg, I \o U32(q) \o U16(i) \o <<255>> \o seed)

(* ---- Algorithm 1 inner loop: iterate from position "from" to "to" ---- *)
RECURSIVE ChainR(_, _, _, _, _)
ChainR(alg, pre, tmp, j, to) ==
    IF j >= to THEN tmp
    ELSE ChainR(alg, pre, H(alg, pre \o <<j>> \o tmp), j + 1, to)
Chain(alg, I, q, i, tmp, from, to) == ChainR(alg, I \o U32(q) \o U16(i), tmp, from, to)

(* K = H(I || u32(q) || D_PBLC || y[0] || ... || y[p-1]) *)
OtsPubFromEnds(alg, I, q, ys, p) ==
    H(alg, I \o U32(q) \o D_PBLC \o CatFixed(ys, p, N(alg)))

(* Algorithm 1 with hash-sigs key derivation *)
OtsPub(alg, t, I, q, seed) ==
    LET w == W(t)
        p == P(N(alg), w)
        ys == TLCEval([i \in 1..p |-> Chain(alg, I, q, i - 1, X(alg, I, q, i - 1, seed), 0, Pow2(w) - 1)])
    IN  OtsPubFromEnds(alg, I, q, ys, p)

(* message digest Q of Algorithm 3 / 4b *)
OtsDigest(alg, I, q, C, msg) == H(alg, I \o U32(q) \o D_MESG \o C \o msg)

(* Algorithm 3: u32(type) || C || y[0] || ... || y[p-1] *)
OtsSigLen(n, t) == 4 + n * (P(n, W(t)) + 1)
OtsSign(alg, t, I, q, seed, C, msg) ==
    LET n == N(alg)
        w == W(t)
        p == P(n, w)
        a == Digits(OtsDigest(alg, I, q, C, msg), n, w)
        ys == TLCEval([i \in 1..p |-> Chain(alg, I, q, i - 1, X(alg, I, q, i - 1, seed), 0, a[i])])
    IN  U32(t) \o C \o CatFixed(ys, p, n)

(* Algorithm 4b on an already split signature (C, y as one string of p*n bytes) *)
OtsCandidate(alg, t, I, q, C, yBytes, msg) ==
    LET n == N(alg)
        w == W(t)
        p == P(n, w)
        a == Digits(OtsDigest(alg, I, q, C, msg), n, w)
        zs == TLCEval([i \in 1..p |-> Chain(alg, I, q, i - 1, SubSeq(yBytes, (i - 1) * n + 1, i * n),
                                            a[i], Pow2(w) - 1)])
    IN  OtsPubFromEnds(alg, I, q, zs, p)

(* ---------------------------------------------------------------------- *)
(* Lemmas about the digit encoding, as TLC-checkable operators (MC_Ots).   *)
(* ---------------------------------------------------------------------- *)
(* the shifted maximum checksum fits in 16 bits, and the v extracted       *)
(* digits cover every significant bit of the shifted checksum              *)
CksmCoveredWith(n, w, ls) ==
    /\ ls >= 0
    /\ MaxCksm(n, w) * Pow2(ls) < 65536
    /\ V(n, w) * w + ls >= 16          \* no bit below the extracted digits can be set

(* value encoded by the v checksum digits of a digit vector *)
RECURSIVE DigitsValueR(_, _, _, _)
DigitsValueR(a, w, i, hi) == IF i > hi THEN 0
                             ELSE a[i] * Pow2(w * (hi - i)) + DigitsValueR(a, w, i + 1, hi)
CksmDigitsValue(a, n, w) == DigitsValueR(a, w, U(n, w) + 1, P(n, w))

(* a dominates b: every chain position of a is >= that of b *)
Dominates(a, b) == \A i \in DOMAIN a : a[i] >= b[i]
=============================================================================
