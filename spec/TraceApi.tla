------------------------------- MODULE TraceApi -------------------------------
(***************************************************************************)
(* Trace validation, protocol layer: a walk recorded from the real library *)
(* (keygen / sign with a callback plan / reload / persist / crash /        *)
(* lifetime query, on one or more keys) is replayed through the ACTIONS of *)
(* HssApi instantiated with the byte-level operators of Hss.tla.  One sign *)
(* event is replayed as the sequence CallSign, StepParse, StepBuild,       *)
(* StepIncrement, StepCallback, StepReturn* the model takes for the logged *)
(* key, message and plan; when the call completes, what the model did is   *)
(* compared with what the code did (callback count and argument, result,   *)
(* stored key).  Every HssApi invariant is evaluated in every state of the *)
(* replay; a false one becomes a verdict.  The byte-level judges of        *)
(* TraceBytes run on the same events in the same TLC run.                  *)
(***************************************************************************)
EXTENDS TraceBytes

VARIABLES store, mem, latest, call, released, nAcc, watch, lastRet,
          resultOf,   \* ghost for C09: <<alg, key blob, message>> -> digest of (signature, successor)
          base        \* ghost: [key id -> counter (bit vector) the walk's key started from]

avars == <<store, mem, latest, call, released, nAcc, watch, lastRet>>
tvars == <<l, bad, cache, store, mem, latest, call, released, nAcc, watch, lastRet, resultOf, base>>

(* ---- key states are [alg, b]: hash variant and key blob ---- *)
KS(alg, b) == [alg |-> alg, b |-> b]
TNoKey == [alg |-> "", b |-> <<>>]
TNoSig == <<>>
IsWipedState(s) == s.alg # "" /\ s.b = WipedKey(N(s.alg))
TSignable(s) == s.alg # "" /\ SignOk(s.alg, s.b) /\ WithinLimits(ParseKey(s.alg, s.b).params) /\ Representable(N(s.alg), ParseKey(s.alg, s.b).params)
TSucc(s) == KS(s.alg, SuccKey(s.alg, s.b))
TAfter(s, r) ==
    \/ IsWipedState(s)
    \/ /\ s.alg # "" /\ r.alg # ""
       /\ LET ps == ParseKey(s.alg, s.b) pr == ParseKey(r.alg, r.b)
          IN  ps.ok /\ pr.ok /\ BvLess(pr.ctr, ps.ctr)

(* the one-time keys a RETURNED signature used, parsed from its bytes: (tree identifier, leaf)  *)
(* per level; content = the embedded child public key, or the message on the bottom level       *)
TEntries(k, s, m, sig) ==
    LET hs == ParseHssSig(s.alg, sig)
        kp == ParseKey(s.alg, s.b)
    IN  IF ~hs.ok \/ ~kp.ok THEN {}
        ELSE LET L == Len(hs.sigs)
                 Iof(i) == IF i = 1 THEN TopSeed(s.alg, kp.seed).I ELSE hs.pubs[i - 1].parsed.I
             (* what a one-time key signs is the digest of (randomizer C, content): the randomizer is part of it *)
             IN  {[ots |-> <<Iof(i), hs.sigs[i].q>>,
                   content |-> IF i = L THEN <<"msg", hs.sigs[i].C, m>> ELSE <<"pub", hs.sigs[i].C, hs.pubs[i].bytes>>] : i \in 1..L}

KeyIds == {Rec[i].k : i \in {j \in 1..Len(Rec) : "k" \in DOMAIN Rec[j]}}
MsgSet == {B(Rec[i].msg) : i \in {j \in 1..Len(Rec) : Rec[j].ev = "sign"}} \cup {<<>>}

IsBad(e) == "bad" \in DOMAIN e /\ e.bad = TRUE
BadSet == {KS(Rec[i].alg, B(Rec[i].key)) : i \in {j \in 1..Len(Rec) : Rec[j].ev = "sign" /\ IsBad(Rec[j])}}

A == INSTANCE HssApi WITH
        Keys <- KeyIds \cup {"nokey"}, Msgs <- MsgSet, NoKey <- TNoKey, NoSig <- TNoSig,
        Fresh <- LAMBDA k : TNoKey,
        Signable <- TSignable, Succ <- TSucc, After <- TAfter,
        SigOf <- LAMBDA k, s, m : TNoSig,
        EntriesOf <- TEntries,
        BadStates <- LAMBDA k : BadSet,
        ContinueFromLatest <- TRUE, ReleaseEarly <- FALSE, WatchSet <- {<<"all">>}

(* ---- invariants of the model, evaluated on every state of the replay ---- *)
(* the counter a walk's key starts from: 0, or the value the scenario patched in right after key   *)
(* generation ("start_ctr" of the keygen event; lets walks begin just before a subtree roll-over   *)
(* or the end of a long lifetime)                                                                  *)
StartCtrHex(e) == IF "start_ctr" \in DOMAIN e THEN e.start_ctr ELSE "0000000000000000"
RECURSIVE BvAddSmall(_, _)
BvAddSmall(v, k) == IF k = 0 THEN v ELSE BvAddSmall(BvInc(v), k - 1)
LifetimeAccountingT ==
    \A k \in KeyIds :
        latest[k] # TNoKey =>
            IF IsWipedState(latest[k]) THEN TRUE
            ELSE LET p == ParseKey(latest[k].alg, latest[k].b) IN
                 p.ok /\ (nAcc[k] < 400 => p.ctr = BvAddSmall(base[k], nAcc[k]))

InvNames == <<"ReleaseSafe", "CbAtMostOnce", "SigOnlyAfterAcceptedCb", "NoCbOnFailure", "BadKeyNeverSigns", "LifetimeAccounting", "NoReuse">>
InvHolds(i) == CASE i = 1 -> A!ReleaseSafe [] i = 2 -> A!CbAtMostOnce
                 [] i = 3 -> A!SigOnlyAfterAcceptedCb [] i = 4 -> A!NoCbOnFailure [] i = 5 -> A!BadKeyNeverSigns
                 [] i = 6 -> LifetimeAccountingT [] i = 7 -> A!NoReuse
InvVerdictsUpTo(n) == Cat([i \in 1..n |->
                     IF InvHolds(i) THEN <<>> ELSE <<[kind |-> "invariant_" \o InvNames[i], exp |-> TRUE, got |-> FALSE]>>])
(* NoReuse is quadratic in the number of released one-time keys: it is evaluated whenever `released` *)
(* may have changed (start of every sign event, end of the trace), the others in every state        *)
InvVerdicts == InvVerdictsUpTo(6)
InvVerdictsFull == InvVerdictsUpTo(7)

E == Rec[l]
Kof(e) == IF "k" \in DOMAIN e THEN e.k ELSE "nokey"

(* ---- C09: the same (hash, key bytes, message) always gives the same signature and successor ---- *)
ResKey(e) == <<e.alg, e.key, e.msg>>
ResVal(e) == <<e.res, e.sig, IF e.cb_n >= 1 THEN e.cb[1].arg ELSE "">>
DetVerdict(e) ==
    IF ResKey(e) \in DOMAIN resultOf /\ resultOf[ResKey(e)] # ResVal(e) /\ e.plan = "accept"
    THEN <<[kind |-> "nondeterministic_result", exp |-> "same outputs for same inputs", got |-> "different"]>> ELSE <<>>
RecordResult(e) == IF e.plan = "accept" /\ ResKey(e) \notin DOMAIN resultOf
                   THEN resultOf @@ (ResKey(e) :> ResVal(e)) ELSE resultOf

(* ---- what the model did for a completed sign call vs. what the code did ---- *)
(* c = call record before the completing step, kind = "ok" | "err" | "crash" *)
CompareSign(e, c, kind, cbCount) ==
    CmpVal("model_result", kind, CASE e.res = "ok" -> "ok" [] e.res = "err" -> "err" [] e.res = "panic" -> "crash" [] OTHER -> e.res)
    \o (IF e.api = "bytes" THEN CmpVal("model_cb_count", cbCount, e.cb_n) ELSE <<>>)
    \o (IF cbCount >= 1 /\ e.cb_n >= 1 THEN CmpBytes("model_cb_arg", c.succ.b, e.cb[1].arg) ELSE <<>>)
    \o (IF kind # "ok" THEN CmpVal("model_sig_released", "", e.sig) ELSE <<>>)

(* ======================================================================= *)
Init2 ==
    /\ l = 1 /\ bad = <<>> /\ cache = <<>>
    /\ A!Init
    /\ resultOf = <<>>
    /\ base = [k \in KeyIds \cup {"nokey"} |-> BvZero]

JudgeNow == LET j == Judge(E, cache) IN [v |-> Tag(j.v, l), c |-> j.c]

Advance(extra) ==       \* the event is complete
    /\ l' = l + 1
    /\ bad' = bad \o Tag(extra \o InvVerdicts, l)

(* events that are one model step *)
EvKeygen ==
    /\ E.ev = "keygen" /\ call.pc = "idle"
    /\ LET j == Judge(E, cache) IN
       /\ cache' = j.c
       /\ IF E.res = "ok" /\ "k" \in DOMAIN E
          THEN /\ A!KeygenWith(E.k, KS(E.alg, B(StartCtrHex(E)) \o Drop(B(E.sk), 8)))
               /\ base' = [base EXCEPT ![E.k] = BvFromBytes(B(StartCtrHex(E)))]
               /\ Advance(j.v)
          ELSE /\ UNCHANGED <<avars, base>>
               /\ Advance(j.v)
    /\ UNCHANGED resultOf

EvLoad ==
    /\ E.ev = "load" /\ call.pc = "idle" /\ "k" \in DOMAIN E
    /\ IF E.res = "ok"
       THEN /\ A!Reload(E.k)
            /\ Advance(CmpBytes("reload_value", store[E.k].b, E.mem_after))
       ELSE /\ UNCHANGED avars /\ Advance(<<Verdict("reload_failed", "ok", E.res)>>)
    /\ UNCHANGED <<cache, resultOf, base>>

EvPersist ==
    /\ E.ev = "persist" /\ call.pc = "idle" /\ "k" \in DOMAIN E
    /\ A!Persist(E.k)
    /\ Advance(CmpBytes("persist_value", mem[E.k].b, E.key))
    /\ UNCHANGED <<cache, resultOf, base>>

EvCrash ==
    /\ E.ev = "crash" /\ call.pc = "idle"
    /\ A!Crash
    /\ Advance(<<>>)
    /\ UNCHANGED <<cache, resultOf, base>>

EvLifetime ==
    /\ E.ev = "lifetime" /\ call.pc = "idle"
    /\ IF "k" \in DOMAIN E
       THEN /\ A!GetLifetime(E.k, E.api)
            /\ Advance(Judge(E, cache).v
                       \o CmpBytes("lifetime_of_holder", (IF E.api = "bytes" THEN store[E.k] ELSE mem[E.k]).b, E.key))
       ELSE /\ UNCHANGED avars /\ Advance(Judge(E, cache).v)
    /\ UNCHANGED <<cache, resultOf, base>>

(* a new walk starts: fresh model state (the tree cache is kept) *)
EvReset ==
    /\ E.ev = "reset" /\ call.pc = "idle"
    /\ store' = [k \in KeyIds \cup {"nokey"} |-> TNoKey]
    /\ mem' = [k \in KeyIds \cup {"nokey"} |-> TNoKey]
    /\ latest' = [k \in KeyIds \cup {"nokey"} |-> TNoKey]
    /\ call' = A!Idle /\ released' = {} /\ nAcc' = [k \in KeyIds \cup {"nokey"} |-> 0]
    /\ lastRet' = A!NoRet /\ resultOf' = <<>>
    /\ base' = [k \in KeyIds \cup {"nokey"} |-> BvZero]
    /\ Advance(<<>>)
    /\ UNCHANGED <<cache, watch>>

(* events the protocol model has no action for: judged by the data layer only *)
EvOther ==
    /\ E.ev \in {"verify", "hook", "info", "hang", "skip", "poke"} \/ (E.ev \in {"sign", "load", "persist"} /\ "k" \notin DOMAIN E)
       \/ (E.ev = "sign_mut" /\ ("k" \notin DOMAIN E \/ E.res # "ok"))
    /\ call.pc = "idle"
    /\ LET j == Judge(E, cache) IN cache' = j.c /\ Advance(j.v \o (IF E.ev = "sign" THEN DetVerdict(E) ELSE <<>>))
    /\ resultOf' = IF E.ev = "sign" THEN RecordResult(E) ELSE resultOf
    /\ UNCHANGED <<avars, base>>

(* sign_mut (fast_verify) released a signature: judged by the data layer; the one-time keys it used enter the ghost *)
(* `released` like those of any other signature (the protocol steps of the call are those of sign)               *)
EvSignMut ==
    /\ E.ev = "sign_mut" /\ "k" \in DOMAIN E /\ E.res = "ok" /\ call.pc = "idle"
    /\ LET j == Judge(E, cache) IN
       /\ cache' = j.c
       /\ released' = released \cup TEntries(E.k, KS(E.alg, B(E.key)), B(E.msg_out), B(E.sig))
       /\ l' = l + 1
       /\ bad' = bad \o Tag(j.v \o InvVerdicts \o (IF \A a \in released', b \in released' : a.ots = b.ots => a.content = b.content
                                                    THEN <<>> ELSE <<[kind |-> "invariant_NoReuse", exp |-> TRUE, got |-> FALSE]>>), l)
    /\ UNCHANGED <<store, mem, latest, call, nAcc, watch, lastRet, resultOf, base>>

(* ---- a sign event, replayed step by step ---- *)
SignStart ==
    /\ E.ev = "sign" /\ "k" \in DOMAIN E /\ call.pc = "idle"
    /\ LET holder == IF E.api = "bytes" THEN store[E.k] ELSE mem[E.k]
           j == Judge(E, cache)
       IN  /\ cache' = j.c
           /\ bad' = bad \o Tag(j.v \o DetVerdict(E) \o InvVerdictsFull
                                \o (IF IsBad(E) THEN <<>> ELSE CmpBytes("harness_key_is_holder", holder.b, E.key)), l)
           /\ IF IsBad(E) THEN A!CallSignBad(E.k, KS(E.alg, B(E.key)), B(E.msg), E.plan)
              ELSE A!CallSign(E.k, IF E.api = "bytes" THEN "bytes" ELSE "mem", B(E.msg), E.plan)
    /\ resultOf' = RecordResult(E)
    /\ UNCHANGED <<l, base>>

SignInternal ==
    /\ E.ev = "sign" /\ call.pc \in {"parse", "build", "increment"}
    /\ \/ A!StepParse
       \/ A!StepBuildWith(B(E.sig))
       \/ A!StepIncrement
    /\ bad' = bad \o Tag(InvVerdicts, l)
    /\ UNCHANGED <<l, cache, resultOf, base>>

SignCallback ==
    /\ E.ev = "sign" /\ call.pc = "callback"
    /\ A!StepCallback
    /\ IF call.plan \in {"crash_before", "crash_after"}
       THEN Advance(CompareSign(E, call, "crash", call.cbCount + 1)
                    \o (IF call.plan = "crash_after" /\ E.api = "bytes" THEN CmpBytes("model_stored_key", call.succ.b, E.stored_key) ELSE <<>>))
       ELSE /\ bad' = bad \o Tag(InvVerdicts, l) /\ UNCHANGED l
    /\ UNCHANGED <<cache, resultOf, base>>

SignReturn ==
    /\ E.ev = "sign" /\ call.pc \in {"return_ok", "fail", "fail_cb"}
    /\ \/ /\ A!StepReturnOk
          /\ Advance(CompareSign(E, call, "ok", call.cbCount)
                     \o CmpBytes("model_holder_after",
                                 call.succ.b, IF call.api = "bytes" THEN E.stored_key ELSE E.mem_after)
                     \o (IF TEntries(call.k, call.key, call.msg, call.cand) = {}
                         THEN <<Verdict("returned_sig_unparsable", "parsable", "not")>> ELSE <<>>))
       \/ /\ A!StepReturnErr
          /\ Advance(CompareSign(E, call, "err", call.cbCount))
    /\ UNCHANGED <<cache, resultOf, base>>

FinishApi ==
    /\ l = Len(Rec) + 1
    /\ ndJsonSerialize(IOEnv.VERDICT, bad \o Tag(InvVerdictsFull, 0) \o <<[l |-> 0, kind |-> "done", consumed |-> l - 1, total |-> Len(Rec)]>>)
    /\ l' = l + 1
    /\ UNCHANGED <<bad, cache, avars, resultOf, base>>

NextApi ==
    \/ /\ l <= Len(Rec)
       /\ \/ EvReset \/ EvKeygen \/ EvLoad \/ EvPersist \/ EvCrash \/ EvLifetime \/ EvOther \/ EvSignMut
          \/ SignStart \/ SignInternal \/ SignCallback \/ SignReturn
    \/ FinishApi

SpecApi == Init2 /\ [][NextApi]_tvars
=============================================================================
