------------------------------- MODULE GenBack -------------------------------
(***************************************************************************)
(* Scenario generation for C02 (spec -> implementation): triples whose     *)
(* PUBLIC KEY was built by an adversary for a RELAXED reading of a check   *)
(* of Algorithm 6a.  Under an honestly generated key a signature with      *)
(* q >= 2^h recomputes to an unrelated root (every LM-OTS pre-image        *)
(* contains the raw q), so dropping or weakening the range check is        *)
(* invisible; under a key built for the weakened algorithm it is not.      *)
(* Two natural readings of an out-of-range leaf number q' = q0 + 2^h:      *)
(*   "mask"      the leaf is q' mod 2^h: node numbers of leaf q0, one-time *)
(*               key and signature computed with the raw q'                *)
(*   "unchecked" node number 2^h + q', h steps up the tree with whatever   *)
(*               path the signature carries                                *)
(* RFC 8554 rejects both triples (Algorithm 6a step 2i).                   *)
(***************************************************************************)
EXTENDS Hss, Json, IOUtils

alg == IOEnv.GEN_ALG
otsT == 4          \* W8
lmsT == 1          \* the 4-leaf tree
h == Height(lmsT)
n == N(alg)
seed == [i \in 1..n |-> (i * 29 + 3) % 256]
I == [i \in 1..16 |-> (i * 53 + 11) % 256]
C == [i \in 1..n |-> (i * 7 + 101) % 256]
msg == <<98, 97, 99, 107, 119, 97, 114, 100, 115>>

HonestLeaves == [k \in 1..Pow2(h) |-> LeafHash(alg, I, Pow2(h) + k - 1, OtsPub(alg, otsT, I, k - 1, seed))]
TreeFrom(leaves) ==
    LET levels == TreeLevelsR(alg, I, h - 1, <<leaves>>)
        depth(r) == Log2Floor(r)
    IN  TLCEval([r \in 1..(Pow2(h + 1) - 1) |-> levels[depth(r) + 1][r - Pow2(depth(r)) + 1]])

(* "mask": leaf q0's one-time key is replaced by one made for the index q' *)
Mask(q0) ==
    LET qp == q0 + Pow2(h)
        leaves == [k \in 1..Pow2(h) |-> IF k = q0 + 1 THEN LeafHash(alg, I, Pow2(h) + q0, OtsPub(alg, otsT, I, qp, seed))
                                       ELSE HonestLeaves[k]]
        tree == TreeFrom(leaves)
    IN  [reading |-> "mask", q |-> qp,
         sig |-> U32(0) \o U32(qp) \o OtsSign(alg, otsT, I, qp, seed, C, msg) \o U32(lmsT) \o AuthPath(tree, h, q0, n),
         pk |-> U32(1) \o LmsPub(lmsT, otsT, I, TreeRoot(tree))]

(* "unchecked": h steps from node 2^h + q' with the path of the honest tree *)
RECURSIVE Steps(_, _, _, _)
Steps(node, tmp, path, k) ==
    IF k > h THEN tmp
    ELSE LET sib == SubSeq(path, (k - 1) * n + 1, k * n)
             parent == node \div 2
         IN  Steps(parent, IF node % 2 = 1 THEN InnerHash(alg, I, parent, sib, tmp) ELSE InnerHash(alg, I, parent, tmp, sib), path, k + 1)
Unchecked(q0) ==
    LET qp == q0 + Pow2(h)
        path == AuthPath(TreeFrom(HonestLeaves), h, q0, n)
        node == Pow2(h) + qp
        root == Steps(node, LeafHash(alg, I, node, OtsPub(alg, otsT, I, qp, seed)), path, 1)
    IN  [reading |-> "unchecked", q |-> qp,
         sig |-> U32(0) \o U32(qp) \o OtsSign(alg, otsT, I, qp, seed, C, msg) \o U32(lmsT) \o path,
         pk |-> U32(1) \o LmsPub(lmsT, otsT, I, root)]

(* a control: the honest triple for leaf q0 (accepted) *)
Honest(q0) ==
    LET tree == TreeFrom(HonestLeaves) IN
    [reading |-> "honest", q |-> q0,
     sig |-> U32(0) \o U32(q0) \o OtsSign(alg, otsT, I, q0, seed, C, msg) \o U32(lmsT) \o AuthPath(tree, h, q0, n),
     pk |-> U32(1) \o LmsPub(lmsT, otsT, I, TreeRoot(tree))]

Triples == <<Honest(1), Mask(1), Mask(2), Unchecked(0), Unchecked(3)>>
Lines == [i \in 1..Len(Triples) |-> [alg |-> alg, reading |-> Triples[i].reading, q |-> Triples[i].q, msg |-> BytesToHex(msg),
                                     sig |-> BytesToHex(Triples[i].sig), pk |-> BytesToHex(Triples[i].pk)]]
(* the reference accepts the control and rejects the others *)
ASSUME SpecVerify(alg, msg, Triples[1].sig, Triples[1].pk)
ASSUME \A i \in 2..Len(Triples) : ~SpecVerify(alg, msg, Triples[i].sig, Triples[i].pk)
ASSUME ndJsonSerialize(IOEnv.GEN_OUT, Lines)
=============================================================================
