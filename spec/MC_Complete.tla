------------------------------ MODULE MC_Complete ------------------------------
(***************************************************************************)
(* C01 / C07 on the specification: the reference scheme itself is          *)
(* complete.  For every hash variant, every Winternitz parameter, the      *)
(* shapes in Shapes (stacks of 4-leaf trees; mixed w per level) and EVERY  *)
(* counter of the shape - including the first signature after each subtree *)
(* roll-over and the last leaf -                                           *)
(*     SpecVerify(m, SpecSign(key_c, m).sig, SpecKeygen(...).pk)           *)
(* the signature has the RFC length, its leaf indices are the digits of    *)
(* the counter, and the successor key is the next counter (or wiped).      *)
(* The instances are explored as a tree so that TLC's workers share them.  *)
(***************************************************************************)
EXTENDS Hss

CONSTANTS Shapes,       \* set of sequences of heights, e.g. {<<2>>, <<2, 2>>}
          CtrStride     \* check every CtrStride-th counter plus the boundaries
VARIABLE inst

Ws == <<1, 2, 4, 8>>
ParamsFor(shape, wi) == [i \in 1..Len(shape) |-> [otsT |-> TypeOfW(Ws[((wi + i - 2) % 4) + 1]), lmsT |-> TypeOfHeight(shape[i])]]
SeedFor(alg) == [i \in 1..N(alg) |-> (7 * i + N(alg)) % 256]
Msgs == <<<<>>, <<1>>, [i \in 1..70 |-> i]>>

ShapesQuick == {<<2>>, <<2, 2>>}
ShapesFull == {<<2>>, <<2, 2>>, <<2, 2, 2>>, <<5>>}

Init == inst = [lvl |-> 0]
Next ==
    \/ inst.lvl = 0 /\ \E a \in HashAlgs : inst' = [lvl |-> 1, alg |-> a]
    \/ inst.lvl = 1 /\ \E wi \in 1..4 : inst' = [lvl |-> 2, alg |-> inst.alg, wi |-> wi]
    \/ inst.lvl = 2 /\ \E s \in Shapes : inst' = [lvl |-> 3, alg |-> inst.alg, wi |-> inst.wi, shape |-> s]
    \/ inst.lvl = 3 /\ \E c \in 0..(Pow2(SumSeq(inst.shape)) - 1) :
            /\ c % CtrStride = 0 \/ c = Pow2(SumSeq(inst.shape)) - 1 \/ (c % Pow2(inst.shape[Len(inst.shape)])) \in {0, Pow2(inst.shape[Len(inst.shape)]) - 1}
            /\ inst' = [lvl |-> 4, alg |-> inst.alg, wi |-> inst.wi, shape |-> inst.shape, ctr |-> c]
Spec == Init /\ [][Next]_inst

Complete ==
    inst.lvl = 4 =>
        LET alg == inst.alg
            ps  == ParamsFor(inst.shape, inst.wi)
            kg  == SpecKeygen(alg, ps, SeedFor(alg))
            key == BvToBytes(BvFromNat(inst.ctr)) \o Slice(kg.sk, 8, 8 + N(alg))
            msg == Msgs[(inst.ctr % 3) + 1]
            sg  == SpecSign(alg, key, msg)
            hs  == ParseHssSig(alg, sg.sig)
            last == inst.ctr = Pow2(SumSeq(inst.shape)) - 1
        IN  /\ kg.ok /\ sg.ok
            /\ SpecVerify(alg, msg, sg.sig, kg.pk)
            /\ Len(sg.sig) = HssSigLen(N(alg), ps)
            /\ hs.ok /\ hs.nspk = Len(ps) - 1
            /\ \A i \in 1..Len(ps) : hs.sigs[i].q = LeafDigits(BvFromNat(inst.ctr), inst.shape)[i]
            /\ IF last THEN sg.next = WipedKey(N(alg))
               ELSE sg.next = BvToBytes(BvFromNat(inst.ctr + 1)) \o Slice(kg.sk, 8, 8 + N(alg))
            /\ ~SpecVerify(alg, msg \o <<0>>, sg.sig, kg.pk)
=============================================================================
