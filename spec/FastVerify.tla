------------------------------ MODULE FastVerify ------------------------------
(***************************************************************************)
(* C15, the concurrent part of sign_mut (lm_ots/signing.rs,                *)
(* optimize_message_hash): THREADS workers each try Budget \div THREADS    *)
(* random trailers, keep their own best (strictly larger cost wins) and    *)
(* send (cost, trailer) over an unbounded channel; the collector drains    *)
(* the channel in ARRIVAL order - which the scheduler decides - and keeps  *)
(* the first strict maximum, starting from cost 0 / the zero trailer.      *)
(* TLC explores every interleaving and every arrival order.                *)
(*                                                                         *)
(* What the rest of sign_mut does with the chosen trailer (hash the        *)
(* message body followed by the trailer, sign that digest with the         *)
(* current leaf, advance the key through the callback) is HssApi's signing *)
(* protocol on the RETURNED message; TraceBytes!JudgeSignMut checks it on  *)
(* the real code.                                                          *)
(***************************************************************************)
EXTENDS Naturals, FiniteSets, Sequences, TLC

CONSTANTS Workers,      \* set of worker ids
          Cands,        \* candidate trailers the random generator can produce
          Cost,         \* [Cands \cup {Zero} -> Nat]: hash-chain cost of the digest a trailer leads to
          Zero,         \* the all-zero trailer the caller supplies
          PerWorker,    \* Budget \div THREADS (0 when the budget is smaller than the thread count)
          TakeLast      \* NEGATIVE MODEL: the collector keeps the last message instead of the best

(* --fair algorithm FastVerify {
  variables chan = {},            \* messages sent and not yet received: <<worker, cost, trailer>>
            nrecv = 0,
            best = 0,
            trailer = Zero,       \* the caller's trailer bytes (the only part of the message that may change)
            body = "body",        \* the rest of the message
            produced = {},        \* ghost: every trailer some worker evaluated
            done = FALSE;

  process (w \in Workers)
    variables i = 0, mybest = 0, mycand = Zero, cur = Zero;
  {
    loop: while (i < PerWorker) {
            with (c \in Cands) { cur := c; produced := produced \cup {c} };
      eval: if (Cost[cur] > mybest) { mybest := Cost[cur]; mycand := cur };
            i := i + 1;
          };
    send: chan := chan \cup {<<self, mybest, mycand>>};
  }

  process (collector = "collector")
  {
    recv: while (nrecv < Cardinality(Workers)) {
            await chan # {};
            with (m \in chan) {
              if (TakeLast \/ m[2] > best) { best := m[2]; trailer := m[3] };
              chan := chan \ {m};
              nrecv := nrecv + 1;
            }
          };
    fin:  done := TRUE;
  }
} *)
\* BEGIN TRANSLATION
VARIABLES pc, chan, nrecv, best, trailer, body, produced, done, i, mybest, 
          mycand, cur

vars == << pc, chan, nrecv, best, trailer, body, produced, done, i, mybest, 
           mycand, cur >>

ProcSet == (Workers) \cup {"collector"}

Init == (* Global variables *)
        /\ chan = {}
        /\ nrecv = 0
        /\ best = 0
        /\ trailer = Zero
        /\ body = "body"
        /\ produced = {}
        /\ done = FALSE
        (* Process w *)
        /\ i = [self \in Workers |-> 0]
        /\ mybest = [self \in Workers |-> 0]
        /\ mycand = [self \in Workers |-> Zero]
        /\ cur = [self \in Workers |-> Zero]
        /\ pc = [self \in ProcSet |-> CASE self \in Workers -> "loop"
                                        [] self = "collector" -> "recv"]

loop(self) == /\ pc[self] = "loop"
              /\ IF i[self] < PerWorker
                    THEN /\ \E c \in Cands:
                              /\ cur' = [cur EXCEPT ![self] = c]
                              /\ produced' = (produced \cup {c})
                         /\ pc' = [pc EXCEPT ![self] = "eval"]
                    ELSE /\ pc' = [pc EXCEPT ![self] = "send"]
                         /\ UNCHANGED << produced, cur >>
              /\ UNCHANGED << chan, nrecv, best, trailer, body, done, i, 
                              mybest, mycand >>

eval(self) == /\ pc[self] = "eval"
              /\ IF Cost[cur[self]] > mybest[self]
                    THEN /\ mybest' = [mybest EXCEPT ![self] = Cost[cur[self]]]
                         /\ mycand' = [mycand EXCEPT ![self] = cur[self]]
                    ELSE /\ TRUE
                         /\ UNCHANGED << mybest, mycand >>
              /\ i' = [i EXCEPT ![self] = i[self] + 1]
              /\ pc' = [pc EXCEPT ![self] = "loop"]
              /\ UNCHANGED << chan, nrecv, best, trailer, body, produced, done, 
                              cur >>

send(self) == /\ pc[self] = "send"
              /\ chan' = (chan \cup {<<self, mybest[self], mycand[self]>>})
              /\ pc' = [pc EXCEPT ![self] = "Done"]
              /\ UNCHANGED << nrecv, best, trailer, body, produced, done, i, 
                              mybest, mycand, cur >>

w(self) == loop(self) \/ eval(self) \/ send(self)

recv == /\ pc["collector"] = "recv"
        /\ IF nrecv < Cardinality(Workers)
              THEN /\ chan # {}
                   /\ \E m \in chan:
                        /\ IF TakeLast \/ m[2] > best
                              THEN /\ best' = m[2]
                                   /\ trailer' = m[3]
                              ELSE /\ TRUE
                                   /\ UNCHANGED << best, trailer >>
                        /\ chan' = chan \ {m}
                        /\ nrecv' = nrecv + 1
                   /\ pc' = [pc EXCEPT !["collector"] = "recv"]
              ELSE /\ pc' = [pc EXCEPT !["collector"] = "fin"]
                   /\ UNCHANGED << chan, nrecv, best, trailer >>
        /\ UNCHANGED << body, produced, done, i, mybest, mycand, cur >>

fin == /\ pc["collector"] = "fin"
       /\ done' = TRUE
       /\ pc' = [pc EXCEPT !["collector"] = "Done"]
       /\ UNCHANGED << chan, nrecv, best, trailer, body, produced, i, mybest, 
                       mycand, cur >>

collector == recv \/ fin

(* Allow infinite stuttering to prevent deadlock on termination. *)
Terminating == /\ \A self \in ProcSet: pc[self] = "Done"
               /\ UNCHANGED vars

Next == collector
           \/ (\E self \in Workers: w(self))
           \/ Terminating

Spec == /\ Init /\ [][Next]_vars
        /\ WF_vars(Next)

Termination == <>(\A self \in ProcSet: pc[self] = "Done")

\* END TRANSLATION

(* an example cost table for model checking: a unique maximum is not assumed (2 and 3 tie), and a   *)
(* candidate may cost nothing (4)                                                                  *)
CostFn == [c \in 0..4 |-> CASE c = 0 -> 0 [] c = 1 -> 1 [] c = 2 -> 2 [] c = 3 -> 2 [] c = 4 -> 0]

MaxProducedCost == IF produced = {} THEN 0
                   ELSE CHOOSE x \in {Cost[c] : c \in produced} : \A y \in {Cost[c] : c \in produced} : y <= x

(* whatever the schedule: the chosen trailer is one a worker produced (or the caller's zero trailer), *)
(* only the trailer changed, and the choice has the maximal cost - unless workers dropped a better    *)
(* candidate, which they never do                                                                     *)
ChoiceIsCandidate == done => trailer \in produced \cup {Zero}
BodyUntouched == body = "body"
ChoiceIsBest == done => /\ best = MaxProducedCost
                        /\ Cost[trailer] = best
ZeroOnlyIfNothingBetter == (done /\ trailer = Zero) => MaxProducedCost = 0
Terminates == <>done
=============================================================================
