#!/usr/bin/env python3
# DESIGN-ROUND SCRATCH — not part of the verification machinery, never invoked by any check.
#
# Purpose: before committing to the TLA+ transcription described in DESIGN.md (section 3.2) the exact
# byte layouts were re-derived here from a reading of RFC 8554 + the hash-sigs conventions and compared
# with the unchanged tree (commit b409cd9) for all six hash variants, 1-3 levels, subtree roll-over
# (counters 30..33 of an H5/H5 key) and the aux layout/MAC.  Everything matched on the first run
# (2026-09-23).  The TLA+ modules (Bytes/Hash/LmOts/Lms/HssKey/Hss/Aux.tla) supersede this file; it is
# kept only as a debugging aid for whoever writes them ("is my spec wrong, or the code?").
#
# Input: a file dump.json with concatenated objects
#   {"alg":..,"params":[[w,h],..],"seed":hex,"sk":hex,"pk":hex,"aux":hex,"sigs":[{"key","msg","sig","next"},..]}
# produced by a throw-away probe that called hbs_lms::keygen / hbs_lms::sign.
#
# Facts it pinned down (named deviations in the spec):
#   * seed derivation hashes the full 55-byte PRNG block, zero padded, for every n; X[i] hashes 23+n bytes
#   * the randomizer C of an upper-level signature is derived from the CHILD tree's seed/I with the
#     PARENT's leaf index; the bottom-level C from its own tree's seed/I and leaf index
#   * ls in the code is 7,6,4,0 for w=1,2,4,8 regardless of n (Appendix-B formula: 8 for (24,1),(16,1),(16,2))
#   * aux: u32 level word | cached levels in ascending level order | MAC; MAC key = H(0^20|fdfd|seed)
import hashlib, json, sys
def mk(alg):
    kind, n = alg.split('_n'); n = int(n)
    if kind == 'sha256': return n, (lambda b: hashlib.sha256(b).digest()[:n])
    return n, (lambda b: hashlib.shake_256(b).digest(n))
u32 = lambda x: x.to_bytes(4, 'big'); u16 = lambda x: x.to_bytes(2, 'big'); u8 = lambda x: bytes([x])
def ots_params(n, w, ls_override=None):
    u = 8 * n // w; mx = u * (2**w - 1); bits = mx.bit_length(); v = -(-bits // w); ls = 16 - v * w
    return u, v, ls, u + v
CODE_LS = {1: 7, 2: 6, 4: 4, 8: 0}
def coef(S, i, w): return (S[i * w // 8] >> (8 - (w * (i % (8 // w)) + w))) & (2**w - 1)
def digits(Q, n, w, ls):
    u, v, _, p = ots_params(n, w); s = sum((2**w - 1) - coef(Q, i, w) for i in range(u)); ck = (s << ls) & 0xffff
    S = Q + u16(ck); return [coef(S, i, w) for i in range(p)]
WT = {1: 1, 2: 2, 4: 3, 8: 4}; HT = {5: 5, 10: 6, 15: 7, 20: 8, 25: 9, 2: 1}
def prng(H, I, q, j, seed): 
    buf = I + u32(q) + u16(j) + b'\xff' + seed; buf += bytes(55 - len(buf)); return H(buf)
def topseed(H, n, seed):
    def blk(which, s): b = bytearray(55); b[20] = 0xfe; b[21] = 0xfe; b[22] = which; b[23:23 + n] = s; return bytes(b)
    t = H(blk(0, seed)); return H(blk(1, t)), H(blk(2, t))[:16]
def child(H, seed, I, q): return prng(H, I, q, 0xfffe, seed), prng(H, I, q, 0xffff, seed)[:16]
def rand_c(H, seed, I, q): return prng(H, I, q, 0xfffd, seed)
def x(H, I, q, i, seed): return H(I + u32(q) + u16(i) + b'\xff' + seed)
def chain(H, I, q, i, t, a, b):
    for j in range(a, b): t = H(I + u32(q) + u16(i) + u8(j) + t)
    return t
def ots_pub(H, n, w, I, q, seed):
    p = ots_params(n, w)[3]
    return H(I + u32(q) + b'\x80\x80' + b''.join(chain(H, I, q, i, x(H, I, q, i, seed), 0, 2**w - 1) for i in range(p)))
def tree(H, n, w, h, I, seed):
    T = {}
    for r in range(2**(h + 1) - 1, 0, -1):
        T[r] = H(I + u32(r) + b'\x82\x82' + ots_pub(H, n, w, I, r - 2**h, seed)) if r >= 2**h else H(I + u32(r) + b'\x83\x83' + T[2 * r] + T[2 * r + 1])
    return T
def lms_pub(n, w, h, I, root): return u32(HT[h]) + u32(WT[w]) + I + root
def lms_sign(H, n, w, h, I, seed, T, q, C, msg, ls):
    Q = H(I + u32(q) + b'\x81\x81' + C + msg); a = digits(Q, n, w, ls)
    y = b''.join(chain(H, I, q, i, x(H, I, q, i, seed), 0, a[i]) for i in range(len(a)))
    path = b''.join(T[((2**h + q) >> k) ^ 1] for k in range(h))
    return u32(q) + u32(WT[w]) + C + y + u32(HT[h]) + path
def keygen(alg, params, seed):
    n, H = mk(alg); pb = bytes((HT[h] << 4) + WT[w] for w, h in params); pb += b'\xff' * (8 - len(pb))
    s, I = topseed(H, n, seed); w, h = params[0]; T = tree(H, n, w, h, I, s)
    return bytes(8) + pb + seed, u32(len(params)) + lms_pub(n, w, h, I, T[1])
def sign(alg, key, msg, code_ls=True):
    n, H = mk(alg); ctr = int.from_bytes(key[:8], 'big'); params = []
    for b in key[8:16]:
        if b == 0xff: break
        params.append(({v: k for k, v in WT.items()}[b & 15], {v: k for k, v in HT.items()}[b >> 4]))
    seed = key[16:]; L = len(params); qs = [0] * L; c = ctr
    for i in range(L - 1, -1, -1): qs[i] = c & (2**params[i][1] - 1); c >>= params[i][1]
    s, I = topseed(H, n, seed); out = u32(L - 1); trees = []
    for i, (w, h) in enumerate(params): 
        trees.append((s, I, tree(H, n, w, h, I, s)))
        if i + 1 < L: s, I = child(H, s, I, qs[i])
    for i in range(L - 1):
        w, h = params[i]; s, I, T = trees[i]; cs, cI, cT = trees[i + 1]; cw, ch = params[i + 1]
        cpub = lms_pub(n, cw, ch, cI, cT[1]); C = rand_c(H, cs, cI, qs[i])
        ls = CODE_LS[w] if code_ls else ots_params(n, w)[2]
        out += lms_sign(H, n, w, h, I, s, T, qs[i], C, cpub, ls) + cpub
    w, h = params[-1]; s, I, T = trees[-1]; ls = CODE_LS[w] if code_ls else ots_params(n, w)[2]
    out += lms_sign(H, n, w, h, I, s, T, qs[-1], rand_c(H, s, I, qs[-1]), msg, ls)
    T_total = sum(h for _, h in params)
    nxt = (bytes(8) + b'\xff' * 8 + bytes(n)) if ctr >= 2**T_total - 1 else (ctr + 1).to_bytes(8, 'big') + key[8:]
    return out, nxt
def aux_expected(alg, params, seed, maxlen):
    n, H = mk(alg); w, h = params[0]; rem = maxlen - 4 - n; lv = []
    for level in range(h, 0, -2):
        if rem >= (n << level): rem -= n << level; lv.append(level)
    word = 0x80000000 | sum(1 << l for l in lv); s, I = topseed(H, n, seed); T = tree(H, n, w, h, I, s)
    data = u32(word) + b''.join(b''.join(T[r] for r in range(2**l, 2**(l + 1))) for l in sorted(lv))
    k = H(bytes(20) + b'\xfd\xfd' + seed)
    inner = H(bytes(b ^ 0x36 for b in k) + b'\x36' * (64 - n) + data); mac = H(bytes(b ^ 0x5c for b in k) + b'\x5c' * (64 - n) + inner)
    return data + mac
txt = open('dump.json').read().replace('}\n{"alg"', '}\n@@{"alg"').split('@@')
for blob in txt:
    d = json.loads(blob); alg = d['alg']; params = [tuple(p) for p in d['params']]; seed = bytes.fromhex(d['seed'])
    sk, pk = keygen(alg, params, seed)
    print(alg, params, 'sk', sk.hex() == d['sk'], 'pk', pk.hex() == d['pk'], end=' ')
    if d['aux']: print('aux', aux_expected(alg, params, seed, 2000 if alg == 'sha256_n32' else 1000).hex() == d['aux'], len(d['aux']) // 2, end=' ')
    res = []
    for s in d['sigs'][:3] + d['sigs'][30:]:
        sig, nxt = sign(alg, bytes.fromhex(s['key']), bytes.fromhex(s['msg']))
        res.append((sig.hex() == s['sig'], nxt.hex() == s['next']))
    print('sigs', res)
    n, _ = mk(alg)
    for w in {w for w, _ in params}:
        if ots_params(n, w)[2] != CODE_LS[w]: print('   ls deviates for n=%d w=%d: code %d formula %d' % (n, w, CODE_LS[w], ots_params(n, w)[2]))
